"""
In-memory file system for paths under a virtual root, with an owned clock and
a hook on every file operation.  pathlib (3.12) reaches the OS through
io.open, os.stat, os.replace, os.unlink - these (and a few siblings) are
replaced for paths under the root only; everything else passes through.

Files are inodes (bytes + mtime); a directory entry maps a path to an inode, so
a handle opened before a rename keeps reading the old inode (POSIX semantics).
A directory entry can also be a symbolic link (target path + its own mtime):
open / stat / utime follow it, lstat / rename / unlink act on the link itself.
Opened files are a RawIOBase wrapped in CPython's own Buffered*/TextIOWrapper,
so the real buffering logic decides where the flush boundaries are.
"""

import builtins
import io
import os
import stat as stat_mod
import threading
import types

ROOT = "/vfs"
FD_BASE = 1_000_000
LINK_MARK = b"\0SYMLINK->"  # how a symbolic link appears in a snapshot


def reset_library_caches(prefix="tola"):
    """
    Forget every functools cache of the library (module level functions and class attributes): what a fresh
    interpreter would start with.  Virtual processes share one OS process here; a memo shared between them, or
    surviving from an earlier exploration branch, would not exist between real processes.
    """
    import sys

    n = 0
    for name, mod in list(sys.modules.items()):
        if mod is None or not (name == prefix or name.startswith(prefix + ".")):
            continue
        for obj in list(vars(mod).values()):
            if hasattr(obj, "cache_clear"):
                obj.cache_clear()
                n += 1
            elif isinstance(obj, type) and getattr(obj, "__module__", "").startswith(prefix):
                for attr in list(vars(obj).values()):
                    f = getattr(attr, "__func__", attr)
                    if hasattr(f, "cache_clear"):
                        f.cache_clear()
                        n += 1
    return n


class Killed(BaseException):
    """raised inside a virtual process that has crashed / been aborted"""


class Inode:
    __slots__ = ("data", "mtime")

    def __init__(self, data=b"", mtime=0):
        self.data = bytearray(data)
        self.mtime = mtime


class VRaw(io.RawIOBase):
    def __init__(self, vfs, path, inode, readable, writable, append=False):
        super().__init__()
        self.vfs = vfs
        self.path = path
        self.inode = inode
        self._r = readable
        self._w = writable
        self.pos = len(inode.data) if append else 0
        self.name = path

    def readable(self):
        return self._r

    def writable(self):
        return self._w

    def seekable(self):
        return True

    def readinto(self, b):
        self.vfs.hook("read", self.path)
        data = bytes(self.inode.data[self.pos : self.pos + len(b)])
        n = len(data)
        b[:n] = data
        self.pos += n
        self.vfs.observe(("read", self.path, data))
        return n

    def write(self, b):
        self.vfs.hook("write", self.path)
        b = bytes(b)
        n = len(b)
        d = self.inode.data
        if self.pos > len(d):
            d.extend(b"\0" * (self.pos - len(d)))
        d[self.pos : self.pos + n] = b
        self.pos += n
        self.inode.mtime = self.vfs.stamp()
        self.vfs.log.append(("write", self.path, n))
        return n

    def seek(self, off, whence=0):
        if whence == 0:
            self.pos = off
        elif whence == 1:
            self.pos += off
        else:
            self.pos = len(self.inode.data) + off
        return self.pos

    def tell(self):
        return self.pos

    def truncate(self, size=None):
        self.vfs.hook("truncate", self.path)
        if size is None:
            size = self.pos
        del self.inode.data[size:]
        self.inode.mtime = self.vfs.stamp()
        return size


class VFS:
    def __init__(self, bufsize=16, coarse=True):
        self.files = {}  # path -> Inode
        self.links = {}  # path -> (target path, mtime of the link itself)
        self.now = 1
        self.coarse = coarse
        self.bufsize = bufsize
        self.hook_fn = None  # callable(op, path)
        self.observe_fn = None
        self.log = []  # mutating operations, for "was it rewritten during this load"
        self.local = threading.local()
        self.unsupported = []
        self._saved = None
        self.fds = {}  # fake file descriptors (>= FD_BASE) -> [path, inode, readable, writable, append]
        self._next_fd = FD_BASE
        self._tmp_counter = 0

    # -- clock ---------------------------------------------------------
    def stamp(self):
        if not self.coarse:
            self.now += 1
        return self.now

    def tick(self):
        self.now += 1

    # -- hooks -----------------------------------------------------------
    def hook(self, op, path):
        if self.hook_fn is not None:
            self.hook_fn(op, path)

    def observe(self, what):
        if self.observe_fn is not None:
            self.observe_fn(what)

    # -- direct manipulation by the harness ----------------------------------
    def put(self, path, data, mtime=None):
        self.files[path] = Inode(data, self.now if mtime is None else mtime)

    def symlink(self, path, target, mtime=None):
        self.links[path] = (target, self.now if mtime is None else mtime)

    def remove(self, path):
        self.files.pop(path, None)
        self.links.pop(path, None)

    def snapshot(self):
        ents = [(p, bytes(i.data), i.mtime) for p, i in self.files.items()]
        ents += [(p, LINK_MARK + t.encode(), m) for p, (t, m) in self.links.items()]
        return tuple(sorted(ents))

    def restore(self, snap, now):
        self.files = {p: Inode(d, m) for p, d, m in snap if not d.startswith(LINK_MARK)}
        self.links = {p: (d[len(LINK_MARK) :].decode(), m) for p, d, m in snap if d.startswith(LINK_MARK)}
        self.now = now

    def _resolve(self, p):
        for _ in range(8):
            if p not in self.links:
                return p
            p = self.links[p][0]
        raise OSError(40, "Too many levels of symbolic links", p)

    # -- patched entry points --------------------------------------------------
    @staticmethod
    def _virtual(path):
        try:
            p = os.fspath(path)
        except TypeError:
            return None
        if isinstance(p, bytes):
            p = p.decode()
        if isinstance(p, str) and (p == ROOT or p.startswith(ROOT + "/")):
            return p
        return None

    def v_open(self, file, mode="r", buffering=-1, encoding=None, errors=None, newline=None, closefd=True, opener=None):
        if isinstance(file, int) and file in self.fds:
            return self._open_fd(file, mode, buffering, encoding, errors, newline)
        p = self._virtual(file)
        if p is None:
            return self._saved["open"](file, mode, buffering, encoding, errors, newline, closefd, opener)
        binary = "b" in mode
        m = mode.replace("b", "").replace("t", "")
        plus = "+" in m
        m = m.replace("+", "")
        self.hook("open-" + m, p)
        rp = self._resolve(p)
        ino = self.files.get(rp)
        if m == "r":
            if ino is None:
                self.observe(("open", p, None))
                raise FileNotFoundError(2, "No such file or directory", p)
            raw = VRaw(self, p, ino, True, plus)
        elif m in ("w", "x", "a"):
            if m == "x" and ino is not None:
                self.observe(("open-x", p, "exists"))
                raise FileExistsError(17, "File exists", p)
            if ino is None:
                ino = Inode(b"", self.stamp())
                self.files[rp] = ino
                self.log.append(("create", p, 0))
            elif m == "w":
                del ino.data[:]
                ino.mtime = self.stamp()
                self.log.append(("truncate", p, 0))
            raw = VRaw(self, p, ino, plus, True, append=(m == "a"))
        else:
            raise ValueError(f"vfs: unsupported mode {mode!r}")
        self.observe(("open", p, m))
        bs = self.bufsize
        if buffering == 0 and binary:
            return raw
        if m == "r" and not plus:
            buf = io.BufferedReader(raw, bs)
        elif plus:
            buf = io.BufferedRandom(raw, bs)
        else:
            buf = io.BufferedWriter(raw, bs)
        if binary:
            return buf
        txt = io.TextIOWrapper(buf, encoding=encoding or "utf-8", errors=errors, newline=newline)
        txt._CHUNK_SIZE = max(1, bs)
        txt.mode = mode
        return txt

    def _wrap(self, raw, mode, buffering, encoding, errors, newline, readable, writable):
        binary = "b" in mode
        bs = self.bufsize
        if buffering == 0 and binary:
            return raw
        if readable and writable:
            buf = io.BufferedRandom(raw, bs)
        elif writable:
            buf = io.BufferedWriter(raw, bs)
        else:
            buf = io.BufferedReader(raw, bs)
        if binary:
            return buf
        txt = io.TextIOWrapper(buf, encoding=encoding or "utf-8", errors=errors, newline=newline)
        txt._CHUNK_SIZE = max(1, bs)
        txt.mode = mode
        return txt

    def _open_fd(self, fd, mode, buffering, encoding, errors, newline):
        # open(<fd>, "w") does NOT truncate: only os.open flags decide that
        path, ino, r, w, app = self.fds[fd]
        raw = VRaw(self, path, ino, r, w, append=app)
        return self._wrap(raw, mode, buffering, encoding, errors, newline, r, w)

    def v_os_open(self, path, flags, mode=0o777, *a, **k):
        p = self._virtual(path)
        if p is None:
            return self._saved["os.open"](path, flags, mode, *a, **k)
        self.hook("os.open", p)
        if p in self.links and flags & os.O_CREAT and flags & os.O_EXCL:
            raise FileExistsError(17, "File exists", p)
        rp = self._resolve(p)
        ino = self.files.get(rp)
        if ino is None:
            if not flags & os.O_CREAT:
                raise FileNotFoundError(2, "No such file or directory", p)
            ino = Inode(b"", self.stamp())
            self.files[rp] = ino
            self.log.append(("create", p, 0))
        else:
            if flags & os.O_CREAT and flags & os.O_EXCL:
                raise FileExistsError(17, "File exists", p)
            if flags & os.O_TRUNC:
                del ino.data[:]
                ino.mtime = self.stamp()
                self.log.append(("truncate", p, 0))
        acc = flags & (os.O_WRONLY | os.O_RDWR)
        fd = self._next_fd
        self._next_fd += 1
        self.fds[fd] = [p, ino, acc != os.O_WRONLY, acc != 0, bool(flags & os.O_APPEND)]
        self.observe(("os.open", p, flags & (os.O_CREAT | os.O_EXCL | os.O_TRUNC)))
        return fd

    def v_os_close(self, fd):
        if fd in self.fds:
            del self.fds[fd]
            return None
        return self._saved["os.close"](fd)

    def v_os_write(self, fd, data):
        if fd in self.fds:
            path, ino, _r, _w, app = self.fds[fd]
            raw = VRaw(self, path, ino, False, True, append=True)
            return raw.write(data)
        return self._saved["os.write"](fd, data)

    def v_os_fsync(self, fd):
        if isinstance(fd, int) and fd in self.fds:
            return None
        try:
            return self._saved["os.fsync"](fd)
        except (OSError, ValueError, io.UnsupportedOperation):
            return None

    def v_mkstemp(self, suffix=None, prefix=None, dir=None, text=False):  # noqa: A002
        d = self._virtual(dir) if dir is not None else None
        if d is None:
            return self._saved["mkstemp"](suffix, prefix, dir, text)
        self._tmp_counter += 1
        name = f"{d}/{prefix or 'tmp'}{self.v_getpid()}_{self._tmp_counter}{suffix or ''}"
        fd = self.v_os_open(name, os.O_RDWR | os.O_CREAT | os.O_EXCL)
        return fd, name

    def v_named_temporary_file(self, mode="w+b", buffering=-1, encoding=None, newline=None, suffix=None, prefix=None, dir=None, delete=True, **kw):  # noqa: A002
        d = self._virtual(dir) if dir is not None else None
        if d is None:
            return self._saved["NamedTemporaryFile"](mode, buffering, encoding, newline, suffix, prefix, dir, delete, **kw)
        fd, name = self.v_mkstemp(suffix, prefix, dir)
        fh = self._open_fd(fd, mode, buffering, encoding, kw.get("errors"), newline)
        self.v_os_close(fd)
        return _NamedTemp(self, fh, name, delete and kw.get("delete_on_close", True))

    def v_stat(self, path, *args, **kwargs):
        p = self._virtual(path)
        if p is None:
            return self._saved["stat"](path, *args, **kwargs)
        self.hook("stat", p)
        if p == ROOT:
            return os.stat_result((stat_mod.S_IFDIR | 0o755, 1, 1, 1, 0, 0, 0, 0, 0, 0))
        if p in self.links:
            if not kwargs.get("follow_symlinks", True):
                t, m = self.links[p]
                self.observe(("lstat", p, m))
                return os.stat_result((stat_mod.S_IFLNK | 0o777, hash(p) & 0xFFFFFF, 1, 1, 0, 0, len(t), m, m, m))
            ino = self.files.get(self._resolve(p))
        else:
            ino = self.files.get(p)
        if ino is None:
            self.observe(("stat", p, None))
            raise FileNotFoundError(2, "No such file or directory", p)
        self.observe(("stat", p, ino.mtime))
        return os.stat_result((stat_mod.S_IFREG | 0o644, id(ino) & 0xFFFFFF, 1, 1, 0, 0, len(ino.data), ino.mtime, ino.mtime, ino.mtime))

    def v_lstat(self, path, *args, **kwargs):
        kwargs["follow_symlinks"] = False
        return self.v_stat(path, *args, **kwargs)

    def v_readlink(self, path, *args, **kwargs):
        p = self._virtual(path)
        if p is None:
            return self._saved["readlink"](path, *args, **kwargs)
        if p not in self.links:
            raise OSError(22, "Invalid argument", p)
        return self.links[p][0]

    def v_replace(self, src, dst, *args, **kwargs):
        ps, pd = self._virtual(src), self._virtual(dst)
        if ps is None and pd is None:
            return self._saved["replace"](src, dst, *args, **kwargs)
        if ps is None or pd is None:
            raise OSError(18, "vfs: cross-device rename")
        self.hook("replace", pd)
        if ps in self.links:  # the link itself moves
            lk = self.links.pop(ps)
            self.files.pop(pd, None)
            self.links[pd] = lk
            self.log.append(("replace", pd, 0))
            return
        ino = self.files.get(ps)
        if ino is None:
            raise FileNotFoundError(2, "No such file or directory", ps)
        del self.files[ps]
        self.links.pop(pd, None)  # a link at the destination is replaced, not followed
        self.files[pd] = ino
        self.log.append(("replace", pd, len(ino.data)))

    def v_unlink(self, path, *args, **kwargs):
        p = self._virtual(path)
        if p is None:
            return self._saved["unlink"](path, *args, **kwargs)
        self.hook("unlink", p)
        if p in self.links:
            del self.links[p]
            self.log.append(("unlink", p, 0))
            return
        if p not in self.files:
            raise FileNotFoundError(2, "No such file or directory", p)
        del self.files[p]
        self.log.append(("unlink", p, 0))

    def v_utime(self, path, times=None, **kwargs):
        p = self._virtual(path)
        if p is None:
            return self._saved["utime"](path, times, **kwargs)
        self.hook("utime", p)
        if p in self.links and not kwargs.get("follow_symlinks", True):
            self.links[p] = (self.links[p][0], self.stamp() if times is None else int(times[1]))
            return
        ino = self.files.get(self._resolve(p))
        if ino is None:
            raise FileNotFoundError(2, "No such file or directory", p)
        # (ns=... comes from shutil.copystat copying the times of a file outside the virtual root: that file was
        # written "now" on the owned clock)
        ino.mtime = self.stamp() if (times is None or kwargs.get("ns")) else int(times[1])

    def v_getpid(self):
        return getattr(self.local, "pid", None) or self._saved["getpid"]()

    def v_listdir(self, path="."):
        p = self._virtual(path)
        if p is None:
            return self._saved["listdir"](path)
        self.hook("listdir", p)
        pre = p.rstrip("/") + "/"
        return sorted({f[len(pre) :].split("/")[0] for f in (*self.files, *self.links) if f.startswith(pre)})

    def v_chmod(self, path, mode, *a, **k):
        p = self._virtual(path)
        if p is None:
            return self._saved["chmod"](path, mode, *a, **k)
        self.hook("chmod", p)
        if self._resolve(p) not in self.files:
            raise FileNotFoundError(2, "No such file or directory", p)
        return None  # permission bits are not modelled

    def v_unsupported(self, name):
        def f(path, *a, **k):
            p = self._virtual(path)
            if p is not None:
                self.unsupported.append((name, p))
                raise RuntimeError(f"HARNESS-UNSUPPORTED: os.{name} on virtual path {p}")
            return self._saved[name](path, *a, **k)

        return f

    # -- install -------------------------------------------------------------------
    def install(self):
        assert self._saved is None
        self._saved = {
            "open": builtins.open,
            "stat": os.stat,
            "replace": os.replace,
            "rename": os.rename,
            "unlink": os.unlink,
            "remove": os.remove,
            "utime": os.utime,
            "getpid": os.getpid,
            "listdir": os.listdir,
            "lstat": os.lstat,
            "mkdir": os.mkdir,
            "link": os.link,
            "symlink": os.symlink,
            "truncate": os.truncate,
            "chmod": os.chmod,
            "readlink": os.readlink,
        }
        import tempfile

        self._saved["os.open"] = os.open
        self._saved["os.close"] = os.close
        self._saved["os.write"] = os.write
        self._saved["os.fsync"] = os.fsync
        self._saved["mkstemp"] = tempfile.mkstemp
        self._saved["NamedTemporaryFile"] = tempfile.NamedTemporaryFile
        os.close = self.v_os_close
        os.write = self.v_os_write
        os.fsync = self.v_os_fsync
        tempfile.mkstemp = self.v_mkstemp
        tempfile.NamedTemporaryFile = self.v_named_temporary_file
        builtins.open = self.v_open
        io.open = self.v_open
        os.stat = self.v_stat
        os.lstat = self.v_lstat
        os.readlink = self.v_readlink
        os.replace = self.v_replace
        os.rename = self.v_replace
        os.unlink = self.v_unlink
        os.remove = self.v_unlink
        os.utime = self.v_utime
        os.getpid = self.v_getpid
        os.listdir = self.v_listdir
        for n in ("mkdir", "link", "symlink", "truncate"):
            setattr(os, n, self.v_unsupported(n))
        os.chmod = self.v_chmod

        os.open = self.v_os_open

    def uninstall(self):
        s = self._saved
        if s is None:
            return
        builtins.open = s["open"]
        io.open = s["open"]
        os.stat = s["stat"]
        os.lstat = s["lstat"]
        os.readlink = s["readlink"]
        os.replace = s["replace"]
        os.rename = s["rename"]
        os.unlink = s["unlink"]
        os.remove = s["remove"]
        os.utime = s["utime"]
        os.getpid = s["getpid"]
        os.listdir = s["listdir"]
        import tempfile

        os.open = s["os.open"]
        os.close = s["os.close"]
        os.write = s["os.write"]
        os.fsync = s["os.fsync"]
        tempfile.mkstemp = s["mkstemp"]
        tempfile.NamedTemporaryFile = s["NamedTemporaryFile"]
        for n in ("mkdir", "link", "symlink", "truncate", "chmod"):
            setattr(os, n, s[n])
        self._saved = None


class _NamedTemp:
    """what tempfile.NamedTemporaryFile returns, over the virtual file system"""

    def __init__(self, vfs, fh, name, delete):
        self._vfs = vfs
        self.file = fh
        self.name = name
        self._delete = delete

    def __getattr__(self, attr):
        return getattr(self.file, attr)

    def __enter__(self):
        return self

    def __exit__(self, *exc):
        self.close()
        return False

    def __iter__(self):
        return iter(self.file)

    def close(self):
        self.file.close()
        if self._delete:
            self._delete = False
            try:
                self._vfs.v_unlink(self.name)
            except FileNotFoundError:
                pass


_ = types
