"""
C15 - a stale, partial or concurrently rewritten index cache is never silently used.

Three explorations on the unmodified FastaIndex.auto_load over the in-memory
file system of mc/vfs.py:

E2  histories, breadth-first to fixpoint: {tick, rewrite FASTA, rm .fai,
    rm .agp, load, load crashed at every file operation}; canonical state =
    file contents + order relation of the mtimes.
E3  schedules: 2-3 virtual processes auto-loading the same FASTA, every
    interleaving at file-operation granularity (explicit-state search over
    schedule prefixes with visited-state pruning => unbounded preemptions).
"""

import threading
from collections import deque
from pathlib import Path

from mc import fastamodel as fm
from mc.engine import Check, h64
from mc.vfs import LINK_MARK, ROOT, VFS, Killed, reset_library_caches
from tola.fasta.index import FastaIndex

FA = ROOT + "/g.fa"
FAI = FA + ".fai"
AGP = FA + ".agp"
REAL = ROOT + "/store/x.fa"  # where the bytes live when g.fa is a symbolic link (staged input of a pipeline)


def fa_real(snap):
    """path of the entry holding the FASTA bytes: FA itself, or the target if FA is a symbolic link"""
    for p, d, _ in snap:
        if p == FA:
            return d[len(LINK_MARK) :].decode() if d.startswith(LINK_MARK) else FA
    raise KeyError(FA)


def fa_entry(snap):
    real = fa_real(snap)
    return next((d, m) for p, d, m in snap if p == real)

CONTENTS = {
    "A": [("r10", b"ACGTNNACGT", 4), ("r1", b"GGnnA", 5)],  # (the second name is contained in the first)
    "B": [("r1", b"ACGTACGTAC", 5)],
    "C": [("s1", b"NNAC", 2), ("s2", b"A", 1), ("m", b"NNN", 2), ("s3", b"ACGTT", 60)],  # "m": a fully masked record
}
BIG = [("big%d" % i, (b"ACGTNNNN" * 40), 60) for i in range(30)]  # cache files > 8 KiB


def content_records(cid):
    if cid.startswith("MANY"):
        # many short records (a scaffold-level assembly): every 97th holds an N run, widths vary
        return [("q%d" % i, b"ACNNGT" if i % 97 == 0 else b"ACG"[: 1 + i % 3], 1 + i % 2) for i in range(1, int(cid[4:]) + 1)]
    return BIG if cid == "BIG" else CONTENTS[cid]


_ref_cache = {}


def reference(cid):
    if cid not in _ref_cache:
        recs = content_records(cid)
        data, exp = fm.make_fasta(recs)
        rows = [(n, fm.expected_runs(n, s)) for n, s, _ in recs]
        _ref_cache[cid] = (data, exp, rows)
    return _ref_cache[cid]


def observed(fi):
    idx = {n: (i.length, i.file_offset, i.residues_per_line, i.max_line_length) for n, i in fi.index.items()} if fi.index is not None else None
    rows = [(s.name, fm.rows_of(s)) for s in fi.assembly.scaffolds] if fi.assembly is not None else None
    return idx, rows


def judge(cid, res):
    """res = ('raised', type) | ('ok', idx, rows); returns violation class or None"""
    if res[0] in ("raised", "killed"):
        return None
    _, exp, rows = reference(cid)
    if res[1] != exp:
        return "load-returned-wrong-index"
    if res[2] != rows:
        return "load-returned-wrong-assembly"
    return None


# ----------------------------------------------------------------------------
# sequential runs with crash injection (E2)


class SeqRunner:
    def __init__(self, bufsize, index_buffer=7):
        self.bufsize = bufsize
        self.index_buffer = index_buffer
        self.pid = 1000

    def construct(self, snap, now):
        """a FastaIndex object made now (its constructor may look at the files), to be loaded later in the history"""
        v = VFS(bufsize=self.bufsize, coarse=True)
        v.restore(snap, now)
        v.install()
        try:
            return FastaIndex(Path(FA), self.index_buffer)
        finally:
            v.uninstall()

    def load(self, snap, now, crash_at=None, fresh_process=True, reuse_obj=None, interrupt_at=None):
        """
        fresh VFS from (snap, now); one auto_load by a fresh virtual pid, killed
        before its crash_at-th file operation if given.  Returns
        (result, points, new snapshot, log, foreign_touch)
        """
        if fresh_process:
            reset_library_caches()  # every load of a history is a new process unless the in-process exploration says otherwise
        v = VFS(bufsize=self.bufsize, coarse=True)
        v.restore(snap, now)
        self.pid += 1
        pid = self.pid
        v.local.pid = pid
        points = []
        foreign = []

        def hook(op, path):
            if path not in (FA, FAI, AGP) and str(pid) not in path:
                foreign.append((op, path))
            if crash_at is not None and len(points) >= crash_at:
                raise Killed()
            points.append((op, path))
            if interrupt_at is not None and len(points) == interrupt_at + 1:
                # an interrupt (Ctrl-C, SIGTERM handler): unlike a crash, the library's clean-up code still runs
                raise KeyboardInterrupt()

        v.hook_fn = hook
        v.install()
        try:
            try:
                # reuse_obj: auto_load() is called again on an object that has already loaded (it may refuse; it must not
                # answer with what it loaded before if that is no longer the file's content)
                fi = reuse_obj if reuse_obj is not None else FastaIndex(Path(FA), self.index_buffer)
                self.last_obj = fi
                fi.auto_load()
                res = ("ok", *observed(fi))
            except (Killed, KeyboardInterrupt):
                res = ("killed",)
            except Exception as e:  # noqa: BLE001
                if "HARNESS-UNSUPPORTED" in str(e):
                    raise
                res = ("raised", type(e).__name__)
        finally:
            v.uninstall()
        return res, points, v.snapshot(), list(v.log), foreign


def canon(snap, now, keep_others):
    """content id is implied by the FASTA bytes; mtimes are replaced by their rank among {mtimes, now}"""
    files = {p: (d, m) for p, d, m in snap}
    vals = sorted({m for _, m in files.values()} | {now})
    rank = {v: i for i, v in enumerate(vals)}
    items = []
    for p in sorted(files):
        if p in (FA, FAI, AGP, REAL) or keep_others:
            d, m = files[p]
            items.append((p, d, rank[m]))
    past = now > max((m for _, m in files.values()), default=0)
    return (tuple(items), past)


class C15(Check):
    pid = "C15"
    level_text = (
        "Explicit-state model checking of the implementation itself: all cache histories to fixpoint with a crash at every file operation, and all interleavings of 2-3 loaders at file-operation granularity (visited-state pruning, unbounded preemptions), over an in-memory file system with an owned clock. No separate model, so no conformance gap."
    )
    technique = (
        "explicit-state search on the real FastaIndex.auto_load over an in-memory file system with owned clock: cache histories to fixpoint "
        "with a crash at every file operation, and all interleavings of 2-3 racing loaders at file-operation granularity (visited-state "
        "pruning, unbounded preemptions)"
    )
    rule = (
        "E2p: every history of <= 5 (6) operations (load by a new object, auto_load again on the history's first object, construct an object now / load it later, rewrite, rm .fai, rm .agp) replayed inside one process, in-memory state of the library kept between its loads (each load of E2 and each run of E3 starts from a fresh library state). E2: states = (FASTA content in {A,B,C}, .fai/.agp bytes or absent, order relation of the three mtimes and the clock); transitions = tick, "
        "rewrite(X != current, mtime = now), rm .fai, rm .agp, load, load crashed before its k-th file operation for every k, load interrupted (KeyboardInterrupt, clean-up code runs) at its k-th file operation for every k; BFS to fixpoint, for stream "
        "buffer sizes {16, 1}, one 8192-buffer run on a cache > 8 KiB, and one run (contents {A,B}) in which the FASTA path is a symbolic link made once and the bytes are rewritten at its target. Invariant after every load: raised, or index and assembly == reference of the "
        "current content; if the cache was missing or not strictly newer, both cache files were (re)written by this load. E3: 2 and 3 virtual processes (in further runs one of them crashes at any of its file operations) "
        "each doing one auto_load from pre-states {no cache, stale cache, valid cache, .fai only}; every operation on .fai/.agp is a "
        "scheduling point; states = (files, per process: points passed + hash of observations); all reachable states explored; invariant: every process "
        "raised or returned the reference, and so does a fresh load afterwards. non-trivial = transition that changes the canonical state (E2) / "
        "state in which at least two processes are mid-run (E3)"
        " Further: racing loaders of which one crashes at any of its file operations. FASTA files written by pretext-to-asm itself (real files): loaded afterwards, plainly and after an indexing run that died between .fai and .agp."
    )
    assumptions = [
        "crash model = process crash, completed writes persist, buffered bytes are lost; no torn single write, no power-loss reordering",
        "FASTA reads are not scheduling points (nothing writes the FASTA during a race); files touched by a single pid only (pid-named temp files) are not scheduling points - a second pid touching one is detected and promotes it",
        "mtime comparisons are the only use of time, so states are canonicalised to the order relation of mtimes",
        "reference index/assembly come from the generator (mc/fastamodel.py), not from the code under test",
    ]
    shard_timeout = {"quick": 300, "thorough": 7200}
    workers = 16

    def bounds(self, tier):
        return {
            "contents": list(CONTENTS),
            "e2_buffers": [16] if tier == "quick" else [16, 1],
            "e3_processes": [2, 3],
            "e3_prestates": ["none", "stale", "valid", "fai-only"],
            "e3_three_process_prestates": ["none", "valid"] if tier == "quick" else ["none", "stale", "valid", "fai-only"],
            "e3_three_process_buffer": [8192] if tier == "quick" else [8192, 64],
            "preemptions": "unbounded (state search)",
        }

    def shards(self, tier):
        out = []
        for b in self.bounds(tier)["e2_buffers"]:
            out.append(("e2", b))
        out.append(("e2big", 8192))
        out.append(("e2link", 16))
        out.append(("cliout",))
        out.append(("many",))
        for first in range(7):  # (a history cannot begin with load-constructed)
            out.append(("e2p", 5 if tier == "quick" else 6, first))
        pres = ("none", "stale", "valid", "fai-only")
        for pre in pres:
            out.append(("e3", 2, pre, 16))
            if tier == "thorough":
                out.append(("e3", 2, pre, 1))
        # three processes: production buffer in the quick tier (one write / read per cache file),
        # small buffer (every partial state of the cache files) in the thorough tier
        # racing loaders of which one crashes at any of its file operations
        for pre in ("none", "stale") if tier == "quick" else pres:
            out.append(("e3k", 2, pre, 16))
        if tier == "thorough":
            out.append(("e3k", 3, "none", 8192))
        # The processes run the same program, so every schedule is a pid-renaming of one that
        # starts with process 0 (symmetry): only first choice 0 is explored.
        for pre in pres if tier == "thorough" else ("none", "valid"):
            out.append(("e3", 3, pre, 8192, 0))
        if tier == "thorough":
            out.append(("e3", 3, "none", 64, 0))
        return out

    # ------------------------------------------------------------------ many records
    MANY_N = (999, 1000, 1001, 1024, 2000, 2001, 2049)

    def many(self, ctx, only=None):
        """a FASTA of n short records, n on and around 1000 / 1024 / 2000: index it (both cache files written), load again from the cache"""
        for n in self.MANY_N:
            if only is not None and n != only:
                continue
            cid = f"MANY{n}"
            case = ["many", n]
            ctx.cur = case
            runner = SeqRunner(8192, index_buffer=1 << 20)
            v0 = VFS()
            v0.put(FA, reference(cid)[0], mtime=1)
            snap, now = v0.snapshot(), 5
            for step in ("index", "load-from-cache", "load-from-cache-again"):
                ctx.evaluations += 1
                ctx.states += 1
                ctx.transitions += 1
                ctx.nontrivial += 1
                res, points, snap, _log, _foreign = runner.load(snap, now)
                now += 5
                if res[0] != "ok":
                    ctx.violation(f"many-records-load-{res[0]}", case, f"{step}: {res!r}")
                    break
                bad = judge(cid, res)
                if bad:
                    _, exp, _rows = reference(cid)
                    missing = sorted(set(exp) - set(res[1] or ()))[:5]
                    ctx.violation(bad + "/many-records", case, f"{step}: {len(res[1] or ())} of {len(exp)} records, first missing {missing!r}")
                    break
                if step != "index" and any(op.startswith("write") and path in (FAI, AGP) for op, path in points):
                    ctx.count("many_cache_rewritten")
            ctx.outcome(h64((n, res[0])))
        ctx.sample({"many": list(self.MANY_N), "record": ">q97 ACNNGT"})

    # ------------------------------------------------------------------ E2
    def e2(self, bufsize, ctx, contents=("A", "B", "C"), replay_hist=None, max_states=None, link=False):
        runner = SeqRunner(bufsize)
        keep_others = False
        while True:
            try:
                return self._e2(runner, ctx, contents, keep_others, replay_hist, max_states, link)
            except _ForeignTouch:
                if keep_others:
                    raise
                keep_others = True
                ctx.count("e2_restarted_with_all_files_in_state")

    def _e2(self, runner, ctx, contents, keep_others, replay_hist, max_states, link=False):
        v0 = VFS()
        if link:
            # the FASTA is reached through a symbolic link made once (mtime 1, never changes); the bytes are
            # rewritten at the target, the cache files are written beside the link
            v0.put(REAL, reference(contents[0])[0], mtime=1)
            v0.symlink(FA, REAL, mtime=1)
        else:
            v0.put(FA, reference(contents[0])[0], mtime=1)
        init = (v0.snapshot(), 1)
        seen = {canon(*init, keep_others): ()}
        frontier = deque([(init, ())])
        ctx.states += 1

        def cid_of(snap):
            data = fa_entry(snap)[0]
            return next(c for c in contents if reference(c)[0] == data)

        def do_load(snap, now, crash_at, hist, interrupt_at=None):
            res, points, snap2, log, foreign = runner.load(snap, now, crash_at, interrupt_at=interrupt_at)
            if foreign and not keep_others:
                raise _ForeignTouch()
            ctx.transitions += 1
            return res, points, snap2, log

        def check_load(snap, now, res, log, hist):
            cid = cid_of(snap)
            files = {p: (d, m) for p, d, m in snap}
            fm_ = fa_entry(snap)[1]
            valid_before = all(p in files and files[p][1] > fm_ for p in (FAI, AGP))
            case = ["e2link" if link else "e2", runner.bufsize, list(contents), [list(h) for h in hist]]
            ctx.cur = case
            k = judge(cid, res)
            tag = ""
            if k:
                ctx.violation(k, case, f"content {cid}: cache valid beforehand={valid_before}; got {res!r}")
            elif res[0] == "ok" and not valid_before:
                touched = {p for op, p, _ in log if op in ("replace", "write", "create", "truncate")}
                if not (FAI in touched and AGP in touched):
                    ctx.violation("cache-not-rebuilt-together", case, f"cache was missing/stale but this load wrote only {sorted(touched)!r}")
            if res[0] == "raised":
                ctx.count("loads_raised_" + res[1] + tag)

        if replay_hist is not None:
            snap, now = init
            for op in replay_hist:
                op = tuple(op)
                snap, now, _ = self.apply(op, snap, now, contents, do_load, check_load, replay_hist)
            return

        while frontier:
            (snap, now), hist = frontier.popleft()
            ctx.evaluations += 1
            for op in self.ops(snap, now, contents, runner, do_load):
                snap2, now2, changed = self.apply(op, snap, now, contents, do_load, check_load, hist + (op,))
                key = canon(snap2, now2, keep_others)
                if key not in seen:
                    seen[key] = hist + (op,)
                    ctx.states += 1
                    ctx.nontrivial += 1
                    frontier.append(((snap2, now2), hist + (op,)))
                    if max_states and len(seen) > max_states:
                        ctx.extra["e2_state_cap_hit"] = max_states
                        return
        ctx.sample({"e2_history": [list(h) for h in max(seen.values(), key=len)], "buffer": runner.bufsize, "fasta_is_symlink": link})
        ctx.outcome(h64(sorted(map(repr, seen))))

    def ops(self, snap, now, contents, runner, do_load):
        files = {p for p, _, _ in snap}
        mt = max(m for _, _, m in snap)
        out = []
        if now <= mt:
            out.append(("tick",))
        cur = fa_entry(snap)[0]
        for c in contents:
            if reference(c)[0] != cur:
                out.append(("rewrite", c))
        if FAI in files:
            out.append(("rm", "fai"))
        if AGP in files:
            out.append(("rm", "agp"))
        out.append(("load",))
        # crash points: one per file operation of the complete run
        _res, points, _s, _l = do_load(snap, now, None, ())
        for k in range(len(points)):
            out.append(("load-crash", k))
        for k in range(len(points)):
            out.append(("load-interrupt", k))
        return out

    def apply(self, op, snap, now, contents, do_load, check_load, hist):
        if op[0] == "tick":
            return snap, now + 1, True
        if op[0] == "rewrite":
            data = reference(op[1])[0]
            real = fa_real(snap)
            snap2 = tuple(sorted([(p, d, m) for p, d, m in snap if p != real] + [(real, data, now)]))
            return snap2, now, True
        if op[0] == "rm":
            tgt = FAI if op[1] == "fai" else AGP
            return tuple(x for x in snap if x[0] != tgt), now, True
        if op[0] == "load":
            res, _points, snap2, log = do_load(snap, now, None, hist)
            check_load(snap, now, res, log, hist)
            return snap2, now, True
        if op[0] == "load-crash":
            _res, _points, snap2, _log = do_load(snap, now, op[1], hist)
            return snap2, now, True
        if op[0] == "load-interrupt":
            _res, _points, snap2, _log = do_load(snap, now, None, hist, interrupt_at=op[1])
            return snap2, now, True
        raise ValueError(op)

    # ------------------------------------------------------------------ FASTA files written by the command line tool
    def cli_outputs(self, ctx, only=None):
        """
        every FASTA file the command line tool writes is itself a FASTA that gets indexed later (next curation round):
        with a clock tick between it and the files written after it, an indexing run of it that dies between its two
        cache files must not leave a state in which the next load returns anything but that FASTA's own assembly
        """
        import os

        from mc import cli
        from mc.checks import c03_cli
        from tola.fasta.index import index_fasta_file

        cases = c03_cli.cases("quick")
        picks = [cases[0], cases[len(cases) // 3], cases[-1]]
        for k, (inp, pvspec) in enumerate(picks):
            d = cli.scratch("verif_c15_")
            try:
                (d / "in").mkdir()
                (d / "out").mkdir()
                cli.write_fasta(d / "in" / "asm.fa", inp, width=7)
                cli.write_pretext(d / "in" / "map.agp", pvspec)
                rc, _o, _e, _x = cli.invoke_p2a(["-a", d / "in" / "asm.fa", "-p", d / "in" / "map.agp", "-o", d / "out" / "x.fa"])
                if rc != 0:
                    continue
                for fa in sorted((d / "out").glob("*.fa")):
                    case = ["cliout", k, fa.name]
                    if only is not None and case != only:
                        continue
                    ctx.cur = case
                    ctx.evaluations += 1
                    ctx.states += 1
                    ctx.nontrivial += 1
                    want_idx, want_asm = index_fasta_file(fa)
                    want = ({n: (i.length, i.file_offset, i.residues_per_line, i.max_line_length) for n, i in want_idx.items()}, [(s.name, fm.rows_of(s)) for s in want_asm.scaffolds])
                    st_ = os.stat(fa)
                    os.utime(fa, ns=(st_.st_mtime_ns - 2_000_000_000, st_.st_mtime_ns - 2_000_000_000))
                    histories = {
                        "indexing-run-died-after-the-fai": ["fai"],  # (first: a plain load rewrites both cache files)
                        "load": [],
                    }
                    for hname, steps in histories.items():
                        for sfx in (".fai",):
                            if os.path.exists(str(fa) + sfx):
                                os.unlink(str(fa) + sfx)
                        if "fai" in steps:
                            fi0 = FastaIndex(fa)
                            fi0.index = want_idx
                            fi0.write_index()
                        ctx.transitions += 1
                        try:
                            fi = FastaIndex(fa)
                            fi.auto_load()
                            got = observed(fi)
                        except Exception as e:  # noqa: BLE001
                            ctx.count("cliout_load_raised_" + type(e).__name__)
                            continue
                        if (got[0], got[1]) != want:
                            ctx.violation("load-returned-wrong-assembly/fasta-written-by-the-tool", case + [hname], f"got {got[1]!r} expected {want[1]!r}")
                            break
                    ctx.outcome(h64(want))
            finally:
                cli.cleanup(d)
        ctx.sample({"cliout": "FASTA files written by pretext-to-asm, loaded afterwards (plain, and after an indexing run that died after the .fai)"})

    # ------------------------------------------------------------------ E2p
    def e2p(self, depth, first, ctx, replay_hist=None):
        """
        histories inside ONE process: every sequence of <= depth operations, replayed from the start with the
        library's in-memory state (memo caches, module globals) kept between the loads of that history
        """
        import itertools

        # the clock advances after every operation here (equal-mtime coincidences are the business of E2)
        alphabet = [("load",), ("rewrite", "B"), ("rewrite", "A"), ("rm", "fai"), ("rm", "agp"), ("reload",), ("construct",), ("load-constructed",)]
        runner = SeqRunner(16)
        hists = [tuple(tuple(o) for o in replay_hist)] if replay_hist is not None else (
            (alphabet[first], *rest) for k in range(0, depth) for rest in itertools.product(alphabet, repeat=k)
        )
        n = 0
        for hist in hists:
            if sum(1 for o in hist if o[0] in ("load", "reload", "load-constructed")) < 2 and replay_hist is None:
                continue  # in-process state can only matter from the second load on
            n += 1
            reset_library_caches()
            v0 = VFS()
            v0.put(FA, reference("A")[0], mtime=1)
            snap, now = v0.snapshot(), 2
            cid = "A"
            first_obj = None
            made = None  # an object constructed earlier in the history and not loaded yet
            if replay_hist is None:
                # well-formed histories only: at most one constructed object pending, and it is loaded before the end
                pending, ok = 0, True
                for o in hist:
                    pending += 1 if o[0] == "construct" else (-1 if o[0] == "load-constructed" else 0)
                    ok = ok and pending in (0, 1)
                if not ok or pending:
                    n -= 1
                    continue
            case = ["e2p", [list(o) for o in hist]]
            ctx.cur = case
            ctx.evaluations += 1
            ctx.states += 1
            for k, op in enumerate(hist):
                ctx.transitions += 1
                now += 1
                if op[0] == "rewrite":
                    cid = op[1]
                    snap = tuple(sorted([(p, d, m) for p, d, m in snap if p != FA] + [(FA, reference(cid)[0], now)]))
                elif op[0] == "rm":
                    tgt = FAI if op[1] == "fai" else AGP
                    snap = tuple(x for x in snap if x[0] != tgt)
                elif op[0] == "construct":
                    made = runner.construct(snap, now)
                elif op[0] == "load-constructed" and made is None:
                    continue
                else:
                    # "reload": the object of the history's first load is asked again
                    reuse = first_obj if op[0] == "reload" else (made if op[0] == "load-constructed" else None)
                    if op[0] == "load-constructed":
                        made = None
                    res, _pts, snap, _log, _f = runner.load(snap, now, None, fresh_process=False, reuse_obj=reuse)
                    if first_obj is None:
                        first_obj = runner.last_obj
                    kk = judge(cid, res)
                    if kk:
                        ctx.violation(kk + "/same-process", ["e2p", [list(o) for o in hist[: k + 1]]], f"content {cid}: got {res!r}")
                        break
            else:
                ctx.nontrivial += 1
        ctx.sample({"e2p": "every history of <= %d operations in one process" % depth, "first": list(alphabet[first]), "histories": n})

    # ------------------------------------------------------------------ E3
    def prestate(self, pre):
        v = VFS()
        data, exp, rows = reference("A")
        v.put(FA, data, mtime=5)
        if pre in ("stale", "valid", "fai-only"):
            src = "B" if pre == "stale" else "A"
            fai, agp = self.cache_bytes(src)
            mt = 3 if pre == "stale" else 7
            v.put(FAI, fai, mtime=mt)
            if pre != "fai-only":
                v.put(AGP, agp, mtime=mt)
        return v.snapshot(), 9

    _cache_bytes = {}

    def cache_bytes(self, cid):
        if cid not in self._cache_bytes:
            runner = SeqRunner(8192)
            v = VFS()
            v.put(FA, reference(cid)[0], mtime=1)
            _res, _pts, snap, _log, _f = runner.load(v.snapshot(), 2)
            files = {p: d for p, d, _ in snap}
            self._cache_bytes[cid] = (files[FAI], files[AGP])
        return self._cache_bytes[cid]

    def e3(self, nproc, pre, bufsize, ctx, first=None, replay_sched=None, shared=None, max_kills=0):
        self._max_kills = max_kills
        snap0, now0 = self.prestate(pre)
        shared = set(shared) if shared else {FAI, AGP}
        while True:
            ex = _Exec(snap0, now0, nproc, bufsize, shared)
            try:
                return self._e3(ex, nproc, pre, bufsize, ctx, first, replay_sched)
            except _Promote as p:
                if replay_sched is not None:
                    raise RuntimeError(f"replay touched a path outside its recorded scheduling set: {p.path}") from None
                shared = shared | {p.path}
                ctx.count("e3_private_path_promoted")

    def _e3(self, ex, nproc, pre, bufsize, ctx, first, replay_sched):
        sampled = []

        def finish(sched, st):
            case = ["e3", nproc, pre, bufsize, list(sched), sorted(ex.shared)]
            if any(r[0] == "killed" for r in st["results"]):
                ctx.count("schedules_with_a_crashed_process")
            ctx.cur = case
            ctx.evaluations += 1
            for p, res in enumerate(st["results"]):
                k = judge("A", res)
                if k:
                    ctx.violation(k + "/racing", case, f"process {p} got {res!r}")
                elif res[0] == "raised":
                    ctx.count("racing_loads_raised_" + res[1])
            # a fourth, fresh load after all finished
            runner = SeqRunner(bufsize)
            res, _p, _s, _l, _f = runner.load(st["snapshot"], st["now"] + 1)
            k = judge("A", res)
            if k:
                ctx.violation(k + "/after-race", case, f"fresh load after the race got {res!r}")
            ctx.outcome(h64((st["results"], st["snapshot"])))
            if not sampled:
                sampled.append(1)
                ctx.sample({"e3_schedule": list(sched), "processes": nproc, "pre_state": pre, "buffer": bufsize, "results": [r[0] for r in st["results"]]})

        if replay_sched is not None:
            st = ex.run(tuple(replay_sched), to_completion=True)
            finish(tuple(replay_sched), st)
            return
        seen = set()
        stack = [()] if first is None else [(first,)]
        nstates = [0]

        def visit(sched, st):
            """called in every state reached after the prefix; returns the next choice or None to stop"""
            ctx.transitions += 1
            key = st["key"]
            if key in seen:
                return None
            seen.add(key)
            nstates[0] += 1
            ctx.states += 1
            if sum(1 for m in st["mid"] if m) >= 2:
                ctx.nontrivial += 1
            if not st["enabled"]:
                finish(sched, st)
                return None
            choices = list(st["enabled"])
            if st["kills"] < self._max_kills:
                choices += [-i - 1 for i in st["killable"]]
            for p in reversed(choices[1:]):
                stack.append(sched + (p,))
            return choices[0]

        while stack:
            sched = stack.pop()
            ex.run(sched, visit=visit)
        ctx.sample({"e3": f"{nproc} processes, pre-state {pre}, buffer {bufsize}", "states": nstates[0]})

    # ------------------------------------------------------------------
    def run_shard(self, shard, ctx):
        kind = shard[0]
        if kind == "e2":
            self.e2(shard[1], ctx)
        elif kind == "cliout":
            self.cli_outputs(ctx)
        elif kind == "many":
            self.many(ctx)
        elif kind == "e2link":
            self.e2(shard[1], ctx, contents=("A", "B") if len(shard) < 3 else tuple(shard[2]), link=True)
        elif kind == "e2p":
            self.e2p(shard[1], shard[2], ctx)
        elif kind == "e2big":
            # production buffer on a cache larger than 8 KiB: two contents, bounded number of states
            self.e2(8192, ctx, contents=("BIG", "A"))
        elif kind == "e3":
            self.e3(shard[1], shard[2], shard[3], ctx, first=shard[4] if len(shard) > 4 else None)
        elif kind == "e3k":
            self.e3(shard[1], shard[2], shard[3], ctx, first=0, max_kills=1)

    def replay(self, case, ctx):
        if case[0] == "cliout":
            self.cli_outputs(ctx, only=case[:3])
        elif case[0] == "many":
            self.many(ctx, only=case[1])
        elif case[0] == "e2p":
            self.e2p(len(case[1]), 0, ctx, replay_hist=case[1])
        elif case[0] in ("e2", "e2link"):
            _, bufsize, contents, hist = case
            self.e2(bufsize, ctx, contents=tuple(contents), replay_hist=[tuple(h) for h in hist], link=case[0] == "e2link")
        else:
            _, nproc, pre, bufsize, sched = case[:5]
            shared = case[5] if len(case) > 5 else None
            self.e3(nproc, pre, bufsize, ctx, replay_sched=sched, shared=shared)
            # determinism: the same schedule must give the same observations
            c2 = type(ctx)(ctx.tier, ctx.seed)
            self.e3(nproc, pre, bufsize, c2, replay_sched=sched, shared=shared)
            if sorted(c2.violations) != sorted(ctx.violations):
                raise RuntimeError("non-deterministic replay of a schedule")


class _ForeignTouch(Exception):
    pass


class _Promote(Exception):
    def __init__(self, path):
        self.path = path


class _Proc:
    def __init__(self, pid):
        self.pid = pid
        self.go = threading.Semaphore(0)
        self.done = False
        self.result = None
        self.points = 0
        self.obs = 0
        self.at = None
        self.thread = None
        self.dead = False


class _Exec:
    """re-executes nproc loaders from a pre-state following a schedule prefix"""

    def __init__(self, snap0, now0, nproc, bufsize, shared):
        self.snap0 = snap0
        self.now0 = now0
        self.nproc = nproc
        self.bufsize = bufsize
        self.shared = shared

    def run(self, sched, to_completion=False, visit=None):
        reset_library_caches()
        v = VFS(bufsize=self.bufsize, coarse=True)
        v.restore(self.snap0, self.now0)
        procs = [_Proc(2000 + i) for i in range(self.nproc)]
        ctrl = threading.Semaphore(0)
        state = {"abort": False, "promote": None, "error": None}
        touched = {}

        def cur():
            return getattr(v.local, "proc", None)

        def hook(op, path):
            p = cur()
            if p is None:
                return
            if state["abort"] or p.dead:
                raise Killed()
            if path == FA:
                if op.startswith("open-") and op != "open-r":
                    state["error"] = "FASTA opened for writing"
                return
            if path not in self.shared:
                owners = touched.setdefault(path, set())
                owners.add(p.pid)
                if len(owners) > 1:
                    state["promote"] = path
                return
            # scheduling point: hand the baton back and wait for our turn
            p.at = (op, path)
            p.points += 1
            ctrl.release()
            p.go.acquire()
            if state["abort"] or p.dead:
                raise Killed()

        def observe(what):
            p = cur()
            if p is not None:
                p.obs = h64((p.obs, what))

        def body(p):
            v.local.proc = p
            v.local.pid = p.pid
            p.go.acquire()
            try:
                if state["abort"] or p.dead:
                    raise Killed()
                fi = FastaIndex(Path(FA), 7)
                fi.auto_load()
                p.result = ("ok", *observed(fi))
            except Killed:
                p.result = ("killed",)
            except Exception as e:  # noqa: BLE001
                if "HARNESS-UNSUPPORTED" in str(e):
                    state["error"] = str(e)
                p.result = ("raised", type(e).__name__)
            finally:
                p.done = True
                ctrl.release()

        v.hook_fn = hook
        v.observe_fn = observe
        v.install()
        try:
            for p in procs:
                p.thread = threading.Thread(target=body, args=(p,), daemon=True)
                p.thread.start()

            def step(i):
                # i >= 0: let process i perform its pending operation; i < 0: process -i-1 crashes where it stands
                p = procs[i] if i >= 0 else procs[-i - 1]
                if p.done:
                    raise RuntimeError(f"schedule runs finished process {i}")
                if i < 0:
                    p.dead = True
                p.go.release()
                ctrl.acquire()

            def state_now():
                enabled = [i for i, p in enumerate(procs) if not p.done]
                key = (
                    canon(v.snapshot(), v.now, True),
                    tuple((p.points, p.obs, p.done, h64(p.result) if p.done else 0) for p in procs),
                )
                return {
                    "key": key,
                    "enabled": enabled,
                    "killable": [i for i, p in enumerate(procs) if not p.done and p.points > 0],
                    "kills": sum(1 for p in procs if p.dead),
                    "mid": [(not p.done) and p.points > 0 for p in procs],
                    "results": [p.result for p in procs] if not enabled else None,
                    "snapshot": v.snapshot(),
                    "now": v.now,
                }

            for i in sched:
                step(i)
            if to_completion:
                while any(not p.done for p in procs):
                    step(next(i for i, p in enumerate(procs) if not p.done))  # (replay of a complete schedule)
            out = state_now()
            if visit is not None:
                cur_sched = tuple(sched)
                while True:
                    nxt = visit(cur_sched, out)
                    if nxt is None:
                        break
                    step(nxt)
                    cur_sched = cur_sched + (nxt,)
                    out = state_now()
            # stop whatever is still running
            state["abort"] = True
            for p in procs:
                if not p.done:
                    p.go.release()
            for p in procs:
                p.thread.join(timeout=10)
                if p.thread.is_alive():
                    raise RuntimeError("virtual process did not stop")
        finally:
            v.uninstall()
        if state["error"]:
            raise RuntimeError(state["error"])
        if state["promote"]:
            raise _Promote(state["promote"])
        return out


CHECK = C15()
CHECK.rule += ' Many records: FASTA files of 999 / 1000 / 1001 / 1024 / 2000 / 2001 / 2049 short records are indexed and then loaded twice from the cache files; every load must return the reference index and assembly.'
