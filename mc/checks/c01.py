"""
C01 - remapping conserves sequence: outputs exactly partition the input contigs.

E1: input assemblies x (a) PretextView-model scripts, (a2) tagged scripts,
(b) single-step perturbations of scripts, (c) arbitrary bait multisets.
Oracle: the real remap raises, or the union of all returned assemblies is an
exact partition of the input contigs.
"""

import itertools
import math

from mc import pv
from mc.engine import Check

BPTS = [1.0, 2.5, 4.0]
SEPS = [(), (("G", 2, "scaffold"),), (("G", 200, "scaffold"),)]
TAGS = [(), ("Haplotig",), ("Contaminant",), ("FalseDuplicate",), ("Unloc",), ("Hap1",), ("Target",)]


def err_len(bpt):
    return 1 + math.floor(bpt)


def lens_for(bpt, tier):
    e = err_len(bpt)
    if tier == "quick":
        return [1, e, 4 * e + 2]
    return [1, e, 2 * e + 1, 6 * e + 2]


def inputs_a(bpt, tier):
    """input assemblies for scope (a): (label, inp)"""
    lens = lens_for(bpt, tier)
    out = []
    for style in ("tpf", "fasta"):
        for sc in pv.gen_scaffolds(style, "scaffold_1", 2, lens, SEPS):
            out.append((sc,))
    if tier == "thorough":
        for style in ("tpf", "sub"):
            for sc in pv.gen_scaffolds(style, "scaffold_1", 3, [lens[1], lens[-1]], SEPS[:2], strands=(1, -1)):
                if sum(1 for r in sc[1] if r[0] == "F") == 3 and sc[1][0][4] == 1:
                    out.append((sc,))
    # two scaffolds: first has 1-2 contigs, second a single contig
    small = lens[:2] if tier == "quick" else lens[:3]
    for style in ("tpf", "fasta"):
        firsts = list(pv.gen_scaffolds(style, "scaffold_1", 2, small, SEPS[:2]))
        seconds = list(pv.gen_scaffolds(style, "HAP1_SCAFFOLD_2", 1, [1, lens[1], lens[-1]], SEPS[:1]))
        for a in firsts:
            for b in seconds:
                out.append((a, b))
    return out


class C01(Check):
    pid = "C01"
    level_text = (
        "Bounded exhaustive: every (input, Pretext) pair of the stated scopes is executed on the real remapping code and the returned assemblies are checked to partition the input contigs exactly (or the run raised). Right level because the defects are boundary coincidences (sub-texel contig x cut x second resolver round) that a finite scope containing all combinations reaches by construction; nothing is claimed outside the scope."
    )
    technique = (
        "exhaustive scope enumeration on the real BuildAssembly: input assemblies x PretextView-model edit scripts (all cut sets, "
        "permutations, orientations, groupings, floor/ceil texel counts), tagged scripts, single-step perturbations and arbitrary bait "
        "multisets; partition oracle on the returned assemblies"
    )
    rule = (
        "case = (input assembly, Pretext assembly). (a) inputs: 1 scaffold of 1-2 contigs (thorough: 3) / 2 scaffolds, both strands, TPF and FASTA "
        "naming, separators {none,2,200}, contig lengths {1,E,2E+1,4E+2|6E+2} with E=1+floor(bpt), bpt {1,2.5,4}; scripts: every cut set on the "
        "texel grid (pieces>=2 texels) with <=3 pieces, floor and ceil texel counts, sub-texel scaffolds present/absent, every permutation x "
        "orientation x grouping, every painted pattern; (a2) every tag assignment from 7 tags per piece on a reduced input set; (b) every "
        "single-step perturbation (drop, duplicate, shift +-1/+-E, extend past end, overlapping extra bait) of the scripts of a reduced set; "
        "(c) every multiset of <=3 baits 1<=a<=b<=L+3 on 5 tiny inputs; (d) slivers: a gap f gap b with f of 2..max(12,E+2) bases (3E thorough) painted by two baits "
        "1..x, y..end for every x<y around f (abutting, overlapping f, or leaving any sliver in neither), 5 orientation/grouping variants, bpt {2.5,4,10}. Oracle: raises, or outputs partition the input contigs exactly. "
        "non-trivial = completed remap that cut a contig, discarded an overhang, re-added a contig, or a case that raised"
    )
    assumptions = [
        "any exception counts as 'ends in an error' (C02 separately demands completion for PretextView-model scripts)",
        "scope bounds as in coverage.bounds; values by representatives",
    ]
    shard_timeout = {"quick": 600, "thorough": 5400}

    def bounds(self, tier):
        return {
            "bpt": BPTS,
            "max_pieces": 3,
            "max_cuts_per_scaffold": 2,
            "max_contigs_per_scaffold": 2 if tier == "quick" else 3,
            "bait_multiset_size": 3,
            "tags": [list(t) for t in TAGS],
        }

    def shards(self, tier):
        out = []
        for bpt in BPTS:
            n = len(inputs_a(bpt, tier))
            chunks = 24 if tier == "quick" else 96
            for c in range(chunks):
                out.append(("a", bpt, c, chunks, tier))
            for c in range(8):
                out.append(("tags", bpt, c, 8, tier))
            for c in range(8):
                out.append(("perturb", bpt, c, 8, tier))
            for c in range(8):
                out.append(("chain", bpt, c, 8, tier))
        for bpt in (1.0, 2.5):
            for i in range(5):
                for variant in (0, 1):
                    out.append(("baits", bpt, i, variant, tier))
        for bpt in (2.5, 4.0, 10.0) if tier == "quick" else (2.5, 4.0, 7.3, 10.0):
            for ln in (9, 18, 40):
                for g in (1, 5):
                    out.append(("sliver", bpt, ln, g, tier))
        return out

    # ------------------------------------------------------------------
    def run_case(self, inp, pvspec, ctx, kind):
        case = [kind, pv.jsonable(inp), pv.jsonable(pvspec)]
        ctx.cur = case
        ctx.evaluations += 1
        try:
            ba, out, _ = pv.remap(inp, pvspec)
        except Exception as e:  # noqa: BLE001
            ctx.count("raised_" + type(e).__name__)
            ctx.nontrivial += 1
            return None
        errs = pv.partition_errors(inp, out)
        st = ba.assembly_stats
        nin = sum(1 for _, rows in inp for r in rows if r[0] == "F")
        nout = sum(1 for a in out.values() for s in a.scaffolds for _ in s.fragments())
        interesting = False
        if st.cuts:
            ctx.count("runs_with_cut")
            interesting = True
        if nout != nin + st.cuts:
            interesting = True
        if len(out) > 1:
            ctx.count("runs_multi_assembly")
            interesting = True
        if st.breaks or st.joins:
            ctx.count("runs_with_break_or_join")
            interesting = True
        if interesting:
            ctx.nontrivial += 1
        for klass, detail in errs[:3]:
            ctx.violation(klass, case, detail)
        ctx.outcome(hash_out(out))
        return out

    def scope_a(self, bpt, chunk, chunks, tier, ctx):
        inputs = inputs_a(bpt, tier)
        full = tier == "thorough"
        margin = (2 if full else 1) * err_len(bpt) + 2
        for i, inp in enumerate(inputs):
            if i % chunks != chunk:
                continue
            two = len(inp) > 1
            for pieces in pv.pv_piece_lists(inp, bpt, max_cuts=1 if two else 2, max_pieces=3, margin=margin):
                n = len(pieces)
                arrs = pv.arrangements(n) if n < 3 else pv.arrangements_reduced(n)
                for arr in arrs:
                    pats = pv.painted_patterns(len(arr), full=False)
                    for painted in pats if (n < 3 or not full) else pats[:2]:
                        self.run_case(inp, pv.make_pv(bpt, pieces, arr, painted), ctx, "pv")
        if inputs:
            inp = inputs[chunk % len(inputs)]
            pieces = next(iter(pv.pv_piece_lists(inp, bpt, 2, 3)))
            ctx.sample({"input": pv.jsonable(inp), "pretext": pv.jsonable(pv.make_pv(bpt, pieces, next(iter(pv.arrangements(len(pieces)))), None))})

    def scope_chain(self, bpt, chunk, chunks, tier, ctx):
        """
        4-5 contig scaffolds with short inner contigs between long outer ones and
        two cuts: several shared contigs at once, so the overhang resolver runs
        more than one round and discards next to sub-texel contigs.
        """
        e = err_len(bpt)
        full = tier == "thorough"
        outer = [2 * e + 2, 8 * e]
        inner = [1, 2, e, e + 1] if full else [2, e, e + 1]
        n = 0
        for o1 in outer:
            for o2 in outer:
                for inn in itertools.chain(itertools.product(inner, repeat=2), itertools.product(inner, repeat=3) if full else ()):
                    for sep in SEPS[:2] if full else SEPS[:1]:
                        for strands in ((1,), (1, -1)) if full else ((1,),):
                            n += 1
                            if n % chunks != chunk:
                                continue
                            lens = (o1, *inn, o2)
                            st = tuple(strands[i % len(strands)] for i in range(len(lens)))
                            inp = (("scaffold_1", pv.scaffold_rows("tpf", "scaffold_1", lens, (sep,) * (len(lens) - 1), st)),)
                            for pieces in pv.pv_piece_lists(inp, bpt, max_cuts=2, max_pieces=3, min_pieces=2, margin=e + 2):
                                np_ = len(pieces)
                                arrs = [tuple(((i, 1),) for i in range(np_)), (tuple((i, 1) for i in range(np_)),)]
                                if full:
                                    arrs.append(tuple(((i, -1 if i % 2 else 1),) for i in reversed(range(np_))))
                                for arr in arrs:
                                    for painted in ((False,) * len(arr), (True,) * len(arr)):
                                        self.run_case(inp, pv.make_pv(bpt, pieces, arr, painted), ctx, "chain")
        ctx.sample({"chain": "outer,inner..,outer contigs with 1-2 cuts", "bpt": bpt})

    def scope_tags(self, bpt, chunk, chunks, tier, ctx):
        e = err_len(bpt)
        full = tier == "thorough"
        inputs = []
        for style in ("tpf", "fasta"):
            inputs += [(sc,) for sc in pv.gen_scaffolds(style, "scaffold_1", 2, [e, 4 * e + 2], SEPS[1:2], strands=(1,))]
            a = list(pv.gen_scaffolds(style, "scaffold_1", 1, [4 * e + 2], SEPS[:1], strands=(1,)))[0]
            b = list(pv.gen_scaffolds(style, "hap1_scaffold_2", 1, [2 * e + 1], SEPS[:1], strands=(1,)))[0]
            inputs.append((a, b))
        n = 0
        for inp in inputs:
            for pieces in pv.pv_piece_lists(inp, bpt, max_cuts=2, max_pieces=3, margin=e if full else 1):
                np_ = len(pieces)
                # orientation fixed forward for the tag scope; all permutations and groupings
                for arr in pv.arrangements(np_, orientations=(1,)):
                    n += 1
                    if n % chunks != chunk:
                        continue
                    ng = len(arr)
                    if not full and ng not in (1, np_):
                        continue
                    for painted in pv.painted_patterns(ng, full=False):
                        for tags in itertools.product(TAGS, repeat=np_):
                            if not full and np_ == 3 and sum(1 for t in tags if t) > 2:
                                continue
                            self.run_case(inp, pv.make_pv(bpt, pieces, arr, painted, tags), ctx, "tags")
        ctx.sample({"tags": "every assignment of (none|Haplotig|Contaminant|FalseDuplicate|Unloc|Hap1|Target) per piece", "bpt": bpt})

    def perturbations(self, pvspec, e):
        bpt, scaffolds = pvspec
        flat = [(gi, pi) for gi, (_, ps) in enumerate(scaffolds) for pi in range(len(ps))]

        def rebuild(mod):
            out = []
            for gi, (name, ps) in enumerate(scaffolds):
                nps = []
                for pi, p in enumerate(ps):
                    nps.extend(mod(gi, pi, p))
                if nps:
                    out.append((name, tuple(nps)))
            return (bpt, tuple(out))

        for tgt in flat:
            yield rebuild(lambda gi, pi, p, t=tgt: [] if (gi, pi) == t else [p])  # drop
            yield rebuild(lambda gi, pi, p, t=tgt: [p, p] if (gi, pi) == t else [p])  # duplicate in place
            for d in (-e, -1, 1, e, 3 * e):
                for which in (1, 2):

                    def shift(gi, pi, p, t=tgt, d=d, which=which):
                        if (gi, pi) != t:
                            return [p]
                        q = list(p)
                        q[which] += d
                        if q[1] < 1 or q[1] > q[2]:
                            return [p]
                        return [tuple(q)]

                    yield rebuild(shift)
            # extra overlapping bait appended as its own scaffold
            gi, pi = tgt
            src, s, en, o, t = scaffolds[gi][1][pi]
            for a, b in ((s + 1, max(s + 1, en - 1)), (max(1, s - e), s + e), (s, en)):
                yield (bpt, (*scaffolds, ("Scaffold_99", ((src, a, b, 1, ()),))))

    def scope_perturb(self, bpt, chunk, chunks, tier, ctx):
        e = err_len(bpt)
        full = tier == "thorough"
        lens = [1, e, 4 * e + 2] if full else [e, 4 * e + 2]
        inputs = []
        for style in ("tpf", "fasta"):
            inputs += [(sc,) for sc in pv.gen_scaffolds(style, "scaffold_1", 2, lens, SEPS[:2])]
        n = 0
        for inp in inputs:
            for pieces in pv.pv_piece_lists(inp, bpt, max_cuts=2, max_pieces=3, margin=e + 2 if full else 1):
                np_ = len(pieces)
                arrs = pv.arrangements_reduced(np_) if full else [
                    tuple(((i, 1),) for i in range(np_)),
                    (tuple((i, 1) for i in range(np_)),),
                    tuple(((i, -1 if i % 2 else 1),) for i in reversed(range(np_))),
                ]
                for arr in arrs:
                    n += 1
                    if n % chunks != chunk:
                        continue
                    base = pv.make_pv(bpt, pieces, arr, None)
                    for p2 in self.perturbations(base, e):
                        self.run_case(inp, p2, ctx, "perturbed")
        ctx.sample({"perturbed": "drop / duplicate / shift +-1,+-E,+3E / overlapping extra bait", "bpt": bpt})

    def scope_sliver(self, bpt, ln, g, tier, ctx):
        """
        a(ln) gap f(2..3E) gap b(ln) painted by two baits 1..x and y..end for
        every x < y around f: the two pieces abut, overlap f by any amount on
        either side, or leave any sliver of f (or of the gaps) in neither.
        """
        e = err_len(bpt)
        for f in range(2, 3 * e + 1 if tier == "thorough" else max(13, e + 3)):
            rows = (("F", "a", 1, ln, 1), ("G", g, "scaffold"), ("F", "f", 1, f, 1), ("G", g, "scaffold"), ("F", "b", 1, ln, 1))
            inp = (("scaffold_1", rows),)
            fs = ln + g + 1
            fe = fs + f - 1
            tot = 2 * ln + 2 * g + f
            for x in range(fs - g - 2, fe + 1):
                for y in range(x + 1, fe + g + 3):
                    for o1, o2, same in ((1, 1, False), (1, -1, False), (-1, 1, False), (1, 1, True), (-1, -1, True)):
                        p1 = ("scaffold_1", 1, x, o1, ())
                        p2 = ("scaffold_1", y, tot, o2, ())
                        if same:
                            sc = (("Scaffold_1", (p1, p2) if o1 == 1 else (p2, p1)),)
                        else:
                            sc = (("Scaffold_1", (p1,)), ("Scaffold_2", (p2,)))
                        self.run_case(inp, (bpt, sc), ctx, "sliver")
        ctx.sample({"sliver": "a(%d) gap(%d) f(2..) gap b: two baits 1..x, y..end for every x<y around f" % (ln, g), "bpt": bpt})

    def scope_baits(self, bpt, i, variant, tier, ctx):
        tiny = [
            (("s", (("F", "a", 1, 5, 1),)),),
            (("s", (("F", "a", 1, 3, 1), ("G", 2, "scaffold"), ("F", "b", 1, 3, -1))),),
            (("s", (("F", "a", 1, 2, -1), ("F", "b", 4, 6, 1), ("F", "c", 1, 1, 1))),),
            (("s", (("F", "s", 1, 3, 1), ("G", 1, "scaffold"), ("F", "s", 5, 7, 1))),),
            (("s", (("F", "a", 1, 6, 1),)), ("t", (("F", "b", 1, 2, 1),))),
        ]
        inp = tiny[i]
        ln = pv.scaffold_length(inp[0][1])
        baits = [(a, b) for a in range(1, ln + 4) for b in range(a, ln + 4)]
        size = self.bounds(tier)["bait_multiset_size"]
        for k in range(1, size + 1):
            for ms in itertools.combinations_with_replacement(baits, k):
                if variant == 0:
                    sc = tuple((f"Scaffold_{j + 1}", (("s", a, b, 1, ()),)) for j, (a, b) in enumerate(ms))
                else:
                    sc = (("Scaffold_1", tuple(("s", a, b, 1 if j % 2 == 0 else -1, ("Painted",)) for j, (a, b) in enumerate(ms))),)
                self.run_case(inp, (bpt, sc), ctx, "baits")
        ctx.sample({"input": pv.jsonable(inp), "baits": "every multiset of <=%d baits 1<=a<=b<=%d" % (size, ln + 3)})

    def run_shard(self, shard, ctx):
        kind = shard[0]
        if kind == "a":
            self.scope_a(*shard[1:], ctx)
        elif kind == "tags":
            self.scope_tags(*shard[1:], ctx)
        elif kind == "perturb":
            self.scope_perturb(*shard[1:], ctx)
        elif kind == "baits":
            self.scope_baits(*shard[1:], ctx)
        elif kind == "chain":
            self.scope_chain(*shard[1:], ctx)
        elif kind == "sliver":
            self.scope_sliver(*shard[1:], ctx)

    def replay(self, case, ctx):
        kind, inp, pvspec = case
        inp = pv.tuplify(inp)
        pvspec = (pvspec[0], pv.tuplify(pvspec[1]))
        self.run_case(inp, pvspec, ctx, kind)


def hash_out(out):
    from mc.engine import h64

    return h64(pv.out_spec(out))


CHECK = C01()
