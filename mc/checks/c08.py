"""
C08 - an unedited Pretext map reproduces the input assembly.

E1: null maps (every input scaffold whole, forward, in its own Pretext
scaffold) x texel sizes x floor/ceil texel count per scaffold x every subset of
sub-texel scaffolds absent x both Pretext orders x {all unpainted, all painted},
restricted by the precondition of the statement (last contig of every mapped
scaffold at least one texel long).
"""

import itertools
import math
import re

from mc import pv
from mc.engine import Check, h64

BPTS = [1.0, 1.5, 2.0, 3.3, 4.0, 6.0]
BPTS_THOROUGH = [1.0, 1.5, 2.0, 2.5, 3.3, 4.0, 6.0, 6.7]
SEPS = [(), (("G", 2, "scaffold"),), (("G", 7, "contig"),), (("G", 200, "scaffold"),)]


def scaffolds_a(tier):
    lens = [1, 2, 3, 4, 5, 9, 12] if tier == "thorough" else [1, 2, 3, 4, 5, 9]
    out = []
    for style in ("tpf", "fasta"):
        for k in (1, 2, 3):
            for ll in itertools.product(lens, repeat=k):
                for ss in itertools.product(SEPS, repeat=k - 1):
                    if style == "fasta" and any(not s for s in ss):
                        continue
                    pats = [(1,) * k] if style == "fasta" else [(1,) * k, tuple(-1 if i % 2 == 0 else 1 for i in range(k))]
                    for st in pats:
                        out.append(("scaffold_1", pv.scaffold_rows(style, "scaffold_1", ll, ss, st)))
    return out


def scaffolds_b(style):
    # (TPF naming) a second scaffold that is a further piece of the first scaffold's first contig: one sequence name in two scaffolds
    remnants = [("scaffold_2", (("F", "scaffold_1.c1", 501, 500 + ln, 1),)) for ln in (1, 2, 9)] if style == "tpf" else []
    return remnants + [
        ("scaffold_2", pv.scaffold_rows(style, "scaffold_2", (1,), (), (1,))),
        ("scaffold_2", pv.scaffold_rows(style, "scaffold_2", (2,), (), (1,))),
        ("scaffold_2", pv.scaffold_rows(style, "scaffold_2", (3,), (), (1,))),
        ("scaffold_2", pv.scaffold_rows(style, "scaffold_2", (9,), (), (1,))),
        ("scaffold_2", pv.scaffold_rows(style, "scaffold_2", (3, 5), (SEPS[1],), (1, 1))),
        ("scaffold_2", pv.scaffold_rows(style, "scaffold_2", (1, 1), (SEPS[1],), (1, 1))),
        # three tiny contigs: a gap, then two that abut (TPF naming) / two gaps (FASTA naming); absent from the map at >= 6 bp/texel
        ("scaffold_2", pv.scaffold_rows(style, "scaffold_2", (1, 1, 1), (SEPS[2][:0] or (("G", 2, "contig"),), () if style == "tpf" else (("G", 1, "contig"),)), (1, 1, 1))),
    ]


def last_contig_len(rows):
    for r in reversed(rows):
        if r[0] == "F":
            return r[3] - r[2] + 1
    return 0


class C08(Check):
    pid = "C08"
    level_text = (
        "Bounded exhaustive over null maps (texel size x floor/ceil x absent sub-texel scaffolds x order x painted); the oracle is the input itself."
    )
    technique = (
        "exhaustive scope enumeration on the real BuildAssembly over null PretextView maps: all small 1-2 scaffold inputs x texel sizes x "
        "floor/ceil rounding x absent sub-texel scaffolds x map order x painted; output compared with the input itself"
    )
    rule = (
        "case = (input assembly, null map). input: scaffold_1 = every 1-3 contig scaffold over lengths {1,2,3,4,5,9} (+12 thorough), separators "
        "{none, 2 scaffold, 7 contig, 200 scaffold}, all-forward or alternating strands (TPF naming) / FASTA naming, x scaffold_2 from 6 small "
        "scaffolds or none; bpt {1,1.5,2,3.3,4,6}; per scaffold texel count floor or ceil (0 = absent, only possible for sub-texel scaffolds), bait "
        "[1, floor(n*bpt)]; both map orders; all unpainted / all painted. Precondition: last contig of every mapped scaffold >= bpt. Oracle "
        "unpainted: only the primary assembly, name->rows equal to the input, cuts=breaks=joins=0, no haplotig assembly. Painted: same rows "
        "per scaffold, mapped scaffolds named <prefix>1..k by non-increasing size (prefix SUPER_ by constructor, or Chr assigned afterwards when the map is in reverse order; a second request to the same object gives the same result), absent ones keep their name. non-trivial = map whose bait end "
        "differs from the scaffold end for at least one scaffold, or with an absent scaffold"
        " scaffold_2 also as three 1-bp contigs (gap, then abutting / gapped pair); bpt 6."
    )
    assumptions = [
        "PretextView model: end coordinate floor(n*bpt) with n in {floor,ceil}(L/bpt)",
        "'order' in the statement is read as row order within scaffolds (output scaffolds are name-sorted by design)",
        "last-contig precondition applies to scaffolds present in the map; absent sub-texel scaffolds are in scope as the statement says",
    ]

    def bounds(self, tier):
        return {"bpt": BPTS if tier == "quick" else BPTS_THOROUGH, "max_contigs": 3, "scaffold_2_choices": 7}

    def shards(self, tier):
        n = 32 if tier == "quick" else 64
        return [(bpt, c, n, tier) for bpt in (BPTS if tier == "quick" else BPTS_THOROUGH) for c in range(n)] + [
            ("mixed", bpt, tier) for bpt in (BPTS if tier == "quick" else BPTS_THOROUGH)
        ]

    def run_case(self, inp, bpt, counts, order, painted, ctx, prefix_variant=0):
        """counts: per input scaffold texel count (0 = absent)"""
        if painted and prefix_variant == 0:
            # a second autosome prefix per map order, chosen so that Pretext's own names (Scaffold_<n>) begin with it
            self.run_case(inp, bpt, counts, order, painted, ctx, prefix_variant=1)
        pieces = []
        for (name, rows), n in zip(inp, counts):
            if n:
                pieces.append((name, 1, math.floor(n * bpt)))
        if not pieces:
            return
        seq = list(range(len(pieces)))
        if order:
            seq.reverse()
        arr = tuple(((i, 1),) for i in seq)
        pvspec = pv.make_pv(bpt, pieces, arr, (painted,) * len(arr))
        case = [pv.jsonable(inp), pv.jsonable(pvspec)] + ([prefix_variant] if prefix_variant else [])
        ctx.cur = case
        ctx.evaluations += 1
        lengths = [pv.scaffold_length(rows) for _, rows in inp]
        if any(n == 0 or math.floor(n * bpt) != ln for n, ln in zip(counts, lengths)):
            ctx.nontrivial += 1
        # D9 classifier: the bait of some mapped scaffold does not reach its last contig at all
        sliver = any(n and ln - math.floor(n * bpt) >= last_contig_len(rows) for (_, rows), n, ln in zip(inp, counts, lengths))
        tag = "/bait-misses-last-contig" if sliver else ""
        # painted maps: default prefix through the constructor, or another prefix assigned after construction
        prefix, via_setter = ("Chr", True) if painted and order else ("SUPER_", False)
        if prefix_variant:
            prefix, via_setter = ("Scaffold_", False) if order else ("S", False)
        try:
            ba, out, _ = pv.remap(inp, pvspec, prefix=prefix, prefix_via_setter=via_setter)
        except Exception as e:  # noqa: BLE001
            ctx.violation(f"null-map-raises:{type(e).__name__}{tag}", case, repr(e)[:500])
            return
        st = ba.assembly_stats
        ospec = pv.out_spec(out)
        want = {name: [tuple(r[:5]) if r[0] == "F" else tuple(r) for r in rows] for name, rows in inp}
        errs = []
        # input names with a haplotype prefix (hap1_scaffold_1) are routed by that name (C09): for them only "comes out
        # unchanged, once" is asserted; every other scaffold must be in the primary output, and nothing else anywhere
        prefixed = {name for name, _ in inp if re.match(r"(?i)hap\d+_", name)}
        if prefixed:
            for k, scs in ospec.items():
                if k is not None and any(n not in prefixed for n, _ in scs):
                    errs.append(("extra-assembly", f"assembly {k!r} holds {[n for n, _ in scs]!r}"))
            others = [(n, rows) for k, scs in ospec.items() if k is not None for n, rows in scs]
            ospec = {None: [*ospec.get(None, []), *others]}
        if list(ospec) != [None]:
            errs.append(("extra-assembly", f"assembly keys {list(ospec)!r}"))
        if (st.cuts, st.breaks, st.joins) != (0, 0, 0):
            errs.append(("stats-nonzero", f"cuts,breaks,joins={(st.cuts, st.breaks, st.joins)}"))
        elif any(v for d_ in getattr(st, "per_assembly_stats", {}).values() for v in d_.values()):
            # the per-assembly numbers are what the info.yaml report shows
            errs.append(("stats-nonzero/per-assembly", f"{st.per_assembly_stats!r}"))
        got = ospec.get(None, [])
        got_rows = [(n, [tuple(r[:5]) if r[0] == "F" else tuple(r) for r in rows]) for n, rows in got]
        if not painted:
            gd = dict(got_rows)
            if len(gd) != len(got_rows) or gd != want:
                errs.append(("content-differs", f"got {got_rows!r} expected {want!r}"))
            elif (
                not prefixed
                and all(re.fullmatch(r"scaffold_\d+", n) for n, _ in inp)
                and [int(n.split("_")[1]) for n, _ in inp] == sorted(int(n.split("_")[1]) for n, _ in inp)
                and [n for n, _ in got_rows] != [n for n, _ in inp]
            ):
                # (the inputs of this scope list their scaffolds in natural name order, which is also the output order)
                errs.append(("scaffold-order-differs", f"got {[n for n, _ in got_rows]!r} expected {[n for n, _ in inp]!r}"))
            if any(r[0] == "F" and r[5] for _, rows in got for r in rows):
                errs.append(("tags-added", f"{got!r}"))
        else:
            mapped = [name for (name, _), n in zip(inp, counts) if n]
            absent = [name for (name, _), n in zip(inp, counts) if not n]
            gd = dict(got_rows)
            for a in absent:
                if gd.get(a) != want[a]:
                    errs.append(("absent-scaffold-differs", f"{a}: {gd.get(a)!r} expected {want[a]!r}"))
            supers = [(n, rows) for n, rows in got_rows if n not in absent]
            names = [n for n, _ in supers]
            if sorted(names) != [f"{prefix}{i + 1}" for i in range(len(mapped))]:
                errs.append(("painted-names", f"{names!r} for {len(mapped)} painted scaffolds"))
            else:
                if sorted(map(repr, (rows for _, rows in supers))) != sorted(repr(want[m]) for m in mapped):
                    errs.append(("painted-content-differs", f"got {supers!r} expected {[want[m] for m in mapped]!r}"))
                by = dict(supers)
                sizes = [sum(r[3] - r[2] + 1 for r in by[f"{prefix}{i + 1}"] if r[0] == "F") for i in range(len(mapped))]
                sizes_g = [sum((r[3] - r[2] + 1) if r[0] == "F" else r[1] for r in by[f"{prefix}{i + 1}"]) for i in range(len(mapped))]
                if any(sizes[i] < sizes[i + 1] for i in range(len(sizes) - 1)) and any(sizes_g[i] < sizes_g[i + 1] for i in range(len(sizes_g) - 1)):
                    errs.append(("painted-rank-not-by-size", f"{sizes!r}"))
        if painted and not errs:
            # asking the same BuildAssembly again gives the same names
            again = pv.out_spec(ba.assemblies_with_scaffolds_fused())
            if again != ospec:
                errs.append(("painted-second-request-differs", f"{[n for n, _ in again.get(None, [])]!r} after {[n for n, _ in got]!r}"))
        for klass, detail in errs[:2]:
            ctx.violation(klass + tag, case, detail)
        ctx.outcome(h64((ospec, st.cuts, st.breaks, st.joins)))

    def run_mixed(self, bpt, tier, ctx):
        """inputs that mix haplotype-prefixed and plain scaffold names, in every order, unpainted null maps"""
        lens = (2, 5, 9)
        names = ("hap1_scaffold_1", "scaffold_2", "HAP2_SCAFFOLD_3", "scaffold_4")
        # names with a <letters><digits>_ prefix that is no haplotype (scaffolded assemblies): all of them multi-contig
        names2 = ("chr1_RagTag", "scaffold12_1", "scaffold_3")
        for style in ("tpf", "fasta"):
            for k in (2, 3):
                for chosen in [*itertools.permutations(names, k), *itertools.permutations(names2, k)]:
                    plain = chosen[0] in names2
                    if not plain and not (any(n.lower().startswith("hap") for n in chosen) and any(not n.lower().startswith("hap") for n in chosen)):
                        continue
                    for ll in itertools.product(lens, repeat=k):
                        inp = tuple(
                            (n, pv.scaffold_rows(style, n, (ln, 3), (SEPS[1],), (1, 1)) if (i == 0 or plain) else pv.scaffold_rows(style, n, (ln,), (), (1,)))
                            for i, (n, ln) in enumerate(zip(chosen, ll))
                        )
                        per = []
                        for _, rows in inp:
                            ch = [n for n in pv.texel_counts(pv.scaffold_length(rows), bpt) if n == 0 or last_contig_len(rows) >= bpt]
                            per.append(ch)
                        if not all(per):
                            continue
                        for counts in itertools.product(*per):
                            for order in (0, 1) if all(counts) else (0,):
                                self.run_case(inp, bpt, counts, order, False, ctx)
        ctx.sample({"mixed_names": list(names), "bpt": bpt})

    def run_shard(self, shard, ctx):
        if shard[0] == "mixed":
            return self.run_mixed(shard[1], shard[2], ctx)
        bpt, chunk, chunks, tier = shard
        sa = scaffolds_a(tier)
        for i, a in enumerate(sa):
            if i % chunks != chunk:
                continue
            style = "fasta" if a[1][0][1] == "scaffold_1" else "tpf"
            for b in [None, *scaffolds_b(style)]:
                inp = (a,) if b is None else (a, b)
                per = []
                ok = True
                for name, rows in inp:
                    ln = pv.scaffold_length(rows)
                    choices = []
                    for n in pv.texel_counts(ln, bpt):
                        if n == 0:
                            choices.append(0)
                        elif last_contig_len(rows) >= bpt:
                            choices.append(n)
                    if not choices:
                        ok = False
                    per.append(choices)
                if not ok:
                    continue
                for counts in itertools.product(*per):
                    for order in (0, 1) if len(inp) > 1 and all(counts) else (0,):
                        for painted in (False, True):
                            self.run_case(inp, bpt, counts, order, painted, ctx)
        ctx.sample({"input": pv.jsonable((sa[chunk % len(sa)],)), "bpt": bpt, "map": "whole scaffold, bait [1, floor(n*bpt)], n in floor/ceil"})

    def replay(self, case, ctx):
        inp, pvspec = case[:2]
        inp = pv.tuplify(inp)
        bpt = pvspec[0]
        names = [n for n, _ in inp]
        counts = [0] * len(inp)
        order_names = []
        painted = False
        for _, pieces in pvspec[1]:
            src, s, e, o, tags = pieces[0]
            order_names.append(src)
            painted = "Painted" in tags
            ln = pv.scaffold_length(dict(inp)[src])
            for n in pv.texel_counts(ln, bpt):
                if n and math.floor(n * bpt) == e:
                    counts[names.index(src)] = n
        mapped = [n for n in names if counts[names.index(n)]]
        order = 1 if order_names != mapped else 0
        self.run_case(inp, bpt, tuple(counts), order, painted, ctx)


CHECK = C08()
# scope added in later rounds, kept in the evidence text
CHECK.rule += " Mixed-name family: inputs of 2-3 scaffolds that mix haplotype-prefixed names (hap1_scaffold_1, HAP2_SCAFFOLD_3) with plain ones, every order; prefixed scaffolds must come out unchanged exactly once (their assembly is C09's business), every other scaffold in the primary output, nothing else anywhere."
CHECK.rule += ' Unpainted: output scaffold order == input order (inputs are listed in natural name order). Painted maps also with the autosome prefixes S and Scaffold_ (which Pretext scaffold names begin with).'
CHECK.rule += ' Second scaffolds that are a further piece of the first scaffold\'s first contig (one sequence name in two scaffolds).'
CHECK.rule += ' Per-assembly break / join numbers (what info.yaml shows) must be zero too; inputs named chr1_RagTag / scaffold12_1 / scaffold_3 (a <letters><digits>_ prefix that is no haplotype), all multi-contig.'
