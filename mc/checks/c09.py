"""
C09 - tags route sequence to the documented destination assembly.

E1: PretextView-model scripts (<= 3 pieces) decorated with every combination
of per-scaffold decorations (painted, name tag, haplotype tags, Target) and
per-piece destructive tags (Haplotig, Contaminant, FalseDuplicate).  Reference
routing model written from the statement, evaluated on piece cores (bases more
than 3E from the piece ends) and on scaffolds absent from the map.
"""

import itertools
import math
import re

from mc import pv
from mc.engine import Check, h64

DESTRUCTIVE = [(), ("Haplotig",), ("Contaminant",), ("FalseDuplicate",)]
DECOR_QUICK = [(), ("Painted",), ("Painted", "Hap1"), ("Painted", "Hap2"), ("Target",), ("Painted", "Target")]
DECOR_MATPAT = [(), ("Painted",), ("Painted", "MAT"), ("Painted", "PAT"), ("MAT",)]
DECOR_FULL = DECOR_QUICK + [("Hap1",), ("Painted", "X"), ("Painted", "Hap1", "Target"), ("HAP2",), ("Painted", "Primary", "Hap1")]
HAP_RE = re.compile(r"^([^_]+)_.+_\d+$")
# Target on a scaffold that also carries a chromosome name tag (rank 2), for scripts of one or two Pretext scaffolds
DECOR_NAMED_TARGET = [("Painted", "X", "Target")]
KNOWN = {"Painted", "Target", "Primary", "Contaminant", "Cut", "FalseDuplicate", "Haplotig", "Singleton", "Unloc"}


def err_len(bpt):
    return 1 + math.floor(bpt)


def name_hap(name):
    m = HAP_RE.search(name)
    return m.group(1).lower() if m else None


def hap_tag(decor):
    for t in decor:
        if t not in KNOWN and not re.fullmatch(r"([A-Z]\d*|[IVX_]+|\d+[A-Z]+)", t):
            return t.lower()
    return None


def inputs_for(bpt, tier):
    e = err_len(bpt)
    big = 8 * e + 2
    out = []
    combos = (
        [(s2, t) for s2 in ("HAP1_SCAFFOLD_2", "hap2_scaffold_2_1", "scaffold_2") for t in (None, "scaffold_9", "hap2_scaffold_9_1")]
        if tier == "thorough"
        else [("HAP1_SCAFFOLD_2", "hap2_scaffold_9"), ("scaffold_2", None), ("hap2_scaffold_2_1", "scaffold_9")]
    )
    # haplotypes named without a digit, all capitals (MAT / PAT): explored with their own decoration list
    combos = [*combos, ("PAT_SCAFFOLD_2", "MAT_SCAFFOLD_9")]
    for second, tiny in combos:
        if True:
            # (the 1-bp contig behind the last gap lies beyond the bait when the texel count is rounded down)
            a = ("scaffold_1", pv.scaffold_rows("fasta", "scaffold_1", (big, big, 1), ((("G", 2, "scaffold"),), (("G", 1, "scaffold"),)), (1, 1, 1)))
            b = (second, pv.scaffold_rows("fasta", second, (big,), (), (1,)))
            inp = [a, b]
            if tiny:
                inp.append((tiny, pv.scaffold_rows("fasta", tiny, (1,), (), (1,))))
            out.append(tuple(inp))
    return out


class C09(Check):
    pid = "C09"
    level_text = (
        "Bounded exhaustive over every decoration (scaffold-level and piece-level tags) of <=3-piece scripts; reference routing model from the statement evaluated on piece cores so placement tolerance cannot alarm; file names through the CLI."
    )
    technique = (
        "exhaustive scope enumeration on the real ScaffoldNamer/BuildAssembly: every decoration of <=3-piece PretextView scripts with "
        "scaffold-level (painted, name, haplotype, Target) and piece-level (Haplotig, Contaminant, FalseDuplicate) tags; reference routing "
        "model evaluated on piece cores and absent scaffolds"
    )
    rule = (
        "case = (input, decorated script). input: scaffold_1 (two contigs of 8E+2 with a gap) + a second scaffold named HAP1_SCAFFOLD_2 | "
        "hap2_scaffold_2 | scaffold_2 (+ optional 1-bp scaffold_9 | hap2_scaffold_9 absent from the map), FASTA naming; script: scaffold_1 whole or "
        "cut once (every boundary within E+2 of the middle rows), every permutation x grouping of the <=3 pieces, forward (+ one reversed variant); "
        "decorations: every assignment of {unpainted, Painted, Painted+Hap1, Painted+Hap2, Target, Painted+Target, Hap1 (+X, Hap1+Target, HAP2, "
        "Primary thorough)} per Pretext scaffold x {none, Haplotig, Contaminant, FalseDuplicate} per piece. Oracle per core base: assembly key == "
        "destructive tag; else Contaminant if the Pretext scaffold lacks Target at or after the first Target; else the scaffold's haplotype tag; else "
        "haplotype by input-name prefix (unpainted: required; painted or mixed-origin: allowed); else primary. Absent scaffolds: Contaminant in Target "
        "mode, else haplotype by name prefix, else primary. Runs ending in TaggingError/ChrNamerError are 'did not complete'. "
        "non-trivial = completed case with at least one core routed to a non-primary assembly"
        " Scaffold-level tags on every piece or on the first piece only; four-field names (hap2_scaffold_2_1); all sequence of one haplotype must sit under one identical assembly key; CLI family with two haplotypes, Primary mode and joined contaminants (file must exist for a tagged whole-scaffold piece)."
    )
    assumptions = [
        "haplotype-by-name clause evaluated with FASTA naming only (contig name == scaffold name)",
        "piece-level Haplotig/FalseDuplicate beat Target-mode contaminant (first sentence of the statement is unconditional)",
        "Primary mode: the primary haplotype's assembly key is 'Primary'; scaffolds without haplotype stay under key None",
    ]
    shard_timeout = {"quick": 600, "thorough": 5400}

    def bpts(self, tier):
        return [2.5] if tier == "quick" else [2.5, 1.0]

    def bounds(self, tier):
        return {"bpt": self.bpts(tier), "max_pieces": 3, "decorations": [list(d) for d in (DECOR_QUICK if tier == "quick" else DECOR_FULL)]}

    def shards(self, tier):
        out = []
        chunks = 48 if tier == "quick" else 128
        for bpt in self.bpts(tier):
            for c in range(chunks):
                out.append((bpt, c, chunks, tier))
        from mc.checks import c03_cli

        out += c03_cli.shards(tier)
        return out

    # ------------------------------------------------------------------
    def expected(self, inp, pvspec):
        """
        per piece (gi, pi): set of allowed destination classes; destination class =
        'Haplotig' | 'Contaminant' | 'FalseDuplicate' | ('hap', lower name) | ('primary',)
        """
        _, scaffolds = pvspec
        first_target = None
        prim = None
        for gi, (_, pieces) in enumerate(scaffolds):
            tags = {t for p in pieces for t in p[4]}
            if "Target" in tags and first_target is None:
                first_target = gi
        # primary haplotype: first scaffold with Primary tag and a haplotype
        for gi, (_, pieces) in enumerate(scaffolds):
            tags = {t for p in pieces for t in p[4]}
            if "Primary" in tags:
                h = hap_tag(sorted(tags)) or name_hap(pieces[0][0])
                if h:
                    prim = h
                break
        exp = {}
        for gi, (_, pieces) in enumerate(scaffolds):
            tags = {t for p in pieces for t in p[4]}
            painted = "Painted" in tags
            ht = hap_tag(sorted(tags))
            h_first = name_hap(pieces[0][0])
            for pi, (src, _s, _e, _o, ptags) in enumerate(pieces):
                if "FalseDuplicate" in ptags:
                    allowed = {"FalseDuplicate"}
                elif "Haplotig" in ptags:
                    allowed = {"Haplotig"}
                elif "Contaminant" in ptags:
                    allowed = {"Contaminant"}
                elif first_target is not None and gi >= first_target and "Target" not in tags:
                    allowed = {"Contaminant"}
                elif ht:
                    allowed = {("hap", ht)}
                else:
                    h_own = name_hap(src)
                    cands = {h_first, h_own}
                    allowed = {("hap", h) if h else ("primary",) for h in cands}
                    if painted:
                        allowed.add(("primary",))
                exp[(gi, pi)] = allowed
        return exp, first_target is not None, prim

    @staticmethod
    def classify_key(key, prim):
        if key is None:
            return ("primary",)
        if key in ("Haplotig", "Contaminant", "FalseDuplicate"):
            return key
        if key == "Primary":
            return ("hap", prim) if prim else ("primary",)
        return ("hap", key.lower())

    def run_case(self, inp, pvspec, ctx, replay_prev=None):
        case = [pv.jsonable(inp), pv.jsonable(pvspec)]
        ctx.cur = case
        ctx.evaluations += 1
        bpt = pvspec[0]
        try:
            _ba, out, input_asm = pv.remap(inp, pvspec)
        except Exception as e:  # noqa: BLE001
            ctx.count("did_not_complete_" + type(e).__name__)
            self._prev = None
            return
        # history: the same parsed input object serves several curation rounds (as the project's own test helper does);
        # every third case is remapped once more on the input object the previous case used
        prev = getattr(self, "_prev", None)
        if replay_prev is None and ctx.evaluations % 3 == 1 and not any("Target" in p[4] for _, ps in pvspec[1] for p in ps):
            # ... or, every third case, on an input object that first went through the same script in Target mode
            tscript = tuple((n, tuple((*p[:4], (*p[4], "Target")) for p in ps)) if gi == 0 else (n, ps) for gi, (n, ps) in enumerate(pvspec[1]))
            try:
                prev = (inp, pv.remap(inp, (pvspec[0], tscript))[2])
                self._prev_script = tscript
            except Exception:  # noqa: BLE001
                prev = None
        if replay_prev is not None:
            prev = (inp, pv.remap(inp, (pvspec[0], pv.tuplify(replay_prev)))[2])
        if prev is not None and prev[0] == inp and (ctx.evaluations % 3 in (0, 1) or replay_prev is not None):
            try:
                out2 = pv.remap(inp, pvspec, input_asm=prev[1])[1]
                if pv.out_spec(out2) != pv.out_spec(out):
                    ctx.violation("result-depends-on-earlier-remap-of-the-same-input-object", case + [pv.jsonable(self._prev_script)] if replay_prev is None else case + [pv.jsonable(replay_prev)], f"{pv.out_spec(out2)!r} vs fresh input {pv.out_spec(out)!r}")
                    return
            except Exception as e:  # noqa: BLE001
                ctx.violation("reused-input-object-raises", case, repr(e)[:300])
                return
        self._prev = (inp, input_asm)
        self._prev_script = pvspec[1]
        exp, target_mode, prim = self.expected(inp, pvspec)
        margin = 3 * err_len(bpt)
        where, _maps = pv.output_positions(out)
        inbm = {name: pv.input_basemap(rows) for name, rows in inp}
        nonprimary = False
        mapped = set()
        hap_keys = {}  # lower-case haplotype name -> the assembly keys its sequence was found under

        def note_key(key):
            if key not in (None, "Haplotig", "Contaminant", "FalseDuplicate", "Primary"):
                hap_keys.setdefault(key.lower(), set()).add(key)

        for gi, (_, pieces) in enumerate(pvspec[1]):
            for pi, (src, s, e, _o, _t) in enumerate(pieces):
                mapped.add(src)
                bm = inbm[src]
                allowed = exp[(gi, pi)]
                for p in range(max(1, s + margin + 1), min(len(bm), e - margin - 1) + 1):
                    ent = bm[p - 1]
                    if ent[0] == "gap":
                        continue
                    locs = where.get((ent[1], ent[2]), ())
                    if len(locs) != 1:
                        ctx.violation("core-base-not-exactly-once", case, f"{ent[1]}:{ent[2]} found {len(locs)} times")
                        return
                    got = self.classify_key(locs[0][0], prim)
                    note_key(locs[0][0])
                    if got != ("primary",):
                        nonprimary = True
                    if got not in allowed:
                        want = sorted(map(str, allowed))
                        kind = "tagged-piece-misrouted" if any(isinstance(a, str) for a in allowed) else "haplotype-or-primary-misrouted"
                        if allowed == {"Contaminant"} and not any("Contaminant" in p[4] for p in pieces):
                            kind = "target-mode-misrouted"
                        ctx.violation(kind, case, f"piece #{pi} of {pvspec[1][gi][0]} ({src}:{s}-{e}): base {ent[1]}:{ent[2]} in assembly {locs[0][0]!r}, expected {want}")
                        return
                    break_after_first = False
                    if break_after_first:
                        break
        # sequence absent from the map: whole scaffolds, and contigs of a mapped scaffold that no bait touches
        covered = {}
        for _, pieces in pvspec[1]:
            for src, s, e, _o, _t in pieces:
                covered.setdefault(src, []).append((s, e))
        for name, rows in inp:
            h = name_hap(name)
            allowed = {"Contaminant"} if target_mode else {("hap", h) if h else ("primary",)}
            spans = pv.contig_spans(rows)
            for a, b, r in spans:
                if any(s <= b and e >= a for s, e in covered.get(name, ())):
                    continue
                locs = where.get((r[1], r[2]), ())
                if len(locs) != 1:
                    ctx.violation("absent-base-not-exactly-once", case, f"{r[1]}:{r[2]} found {len(locs)} times")
                    return
                got = self.classify_key(locs[0][0], prim)
                note_key(locs[0][0])
                if got != ("primary",):
                    nonprimary = True
                if got not in allowed:
                    ctx.violation("absent-scaffold-misrouted", case, f"{name}:{r[2]}-{r[3]} absent from the map: in assembly {locs[0][0]!r}, expected {sorted(map(str, allowed))}")
                    return
        for lc, keys in hap_keys.items():
            if len(keys) > 1:
                # "that haplotype's assembly": a tag and a name prefix that differ only in case are one haplotype
                ctx.violation("haplotype-split-by-case", case, f"sequence of haplotype {lc!r} is spread over assemblies {sorted(keys)!r}")
                return
        if nonprimary:
            ctx.nontrivial += 1
        ctx.count("completed")
        ctx.outcome(h64(pv.out_spec(out)))

    def run_shard(self, shard, ctx):
        if shard[0] == "cli":
            from mc.checks import c03_cli

            return c03_cli.run_shard(self, shard, ctx, validate_only=True, extra=c03_cli.check_c09_files)
        bpt, chunk, chunks, tier = shard
        # thorough: all 9 input combinations, every per-piece tag assignment and the full decoration list (for
        # <= 2 Pretext scaffolds) at 2.5 bp/texel; the quick scope again at 1 bp/texel
        full = tier == "thorough" and bpt == 2.5
        e = err_len(bpt)
        decor = DECOR_FULL if full else DECOR_QUICK
        n = 0
        for inp in inputs_for(bpt, tier if full else "quick"):
            big = pv.scaffold_length(inp[0][1])
            present = inp[:2]
            for pieces in pv.pv_piece_lists(present, bpt, max_cuts=1, max_pieces=3, min_pieces=2, margin=e + 2):
                # only scripts in which the second scaffold is whole and scaffold_1 is cut near its middle (or whole)
                if sum(1 for p in pieces if p[0] != "scaffold_1") != 1:
                    continue
                a_pieces = [p for p in pieces if p[0] == "scaffold_1"]
                if len(a_pieces) == 2 and abs(a_pieces[0][2] - big // 2) > (e + 1 if full else 2):
                    continue
                np_ = len(pieces)
                for arr in pv.arrangements(np_, orientations=(1,)):
                    n += 1
                    if n % chunks != chunk:
                        continue
                    variants = [arr]
                    for arr2 in variants:
                        ng = len(arr2)
                        matpat = inp[1][0].startswith("PAT_")
                        for decs in itertools.product(DECOR_MATPAT if matpat else (decor + DECOR_NAMED_TARGET if ng < 3 else DECOR_QUICK), repeat=ng):
                            for ptags in itertools.product(DESTRUCTIVE, repeat=np_):
                                if not full and np_ == 3 and all(ptags):
                                    continue  # quick: at most two destructively tagged pieces
                                # scaffold-level tags on every piece, and (when a scaffold has several pieces and
                                # no per-piece tag is involved) on its first piece only: the code takes their union
                                modes = ("all", "first") if (ng < np_ and not any(ptags)) else ("all",)
                                if ng < np_ and sum(1 for t in ptags if t) == 1:
                                    # ... also when that first piece is the one removal-tagged piece of the script
                                    firsts = {grp[0][0] for grp in arr2 if len(grp) > 1}
                                    if any(ptags[pi] for pi in firsts):
                                        modes = ("all", "first")
                                for mode in modes:
                                    scaffolds = []
                                    for gi, grp in enumerate(arr2):
                                        rows = []
                                        for k, (pi, o) in enumerate(grp):
                                            src, s, en = pieces[pi]
                                            dec = tuple(decs[gi]) if (mode == "all" or k == 0) else tuple(t for t in decs[gi] if t == "Painted")
                                            rows.append((src, s, en, o, dec + tuple(ptags[pi])))
                                        scaffolds.append((f"Scaffold_{gi + 1}", tuple(rows)))
                                    self.run_case(inp, (bpt, tuple(scaffolds)), ctx)
        ctx.sample(
            {
                "input": pv.jsonable(inputs_for(bpt, tier)[0]),
                "pretext": [["Scaffold_1", [["scaffold_1", 1, 40, 1, ["Painted", "Hap1"]], ["HAP1_SCAFFOLD_2", 1, 25, 1, ["Painted", "Hap1", "Haplotig"]]]]],
            }
        )

    def replay(self, case, ctx):
        if case[0] == "cli":
            from mc.checks import c03_cli

            return c03_cli.replay(self, case, ctx, validate_only=True, extra=c03_cli.check_c09_files)
        inp, pvspec = case[:2]
        self.run_case(pv.tuplify(inp), (pvspec[0], pv.tuplify(pvspec[1])), ctx, replay_prev=pv.tuplify(case[2]) if len(case) > 2 else None)


CHECK = C09()
# scope added in later rounds, kept in the evidence text
CHECK.rule += ' scaffold_1 may end in a 1-bp contig that no bait touches: a contig outside every bait counts as sequence absent from the map.'
CHECK.rule += ' CLI family 4: untagged chromosomes plus one scaffold carrying a single haplotype tag, optional haplotig / contaminant, optional haplotype-prefixed scaffold absent from the map; at file level the component rows of all AGP files partition the input residues, and a whole-scaffold piece must be in the one file its tags name.'
CHECK.rule += ' Haplotypes named in capitals without a digit: input PAT_SCAFFOLD_2 (+ MAT_SCAFFOLD_9 absent) with decorations {unpainted, Painted, Painted+MAT, Painted+PAT, MAT}.'
CHECK.rule += ' Scaffold-level tags carried only by a first piece that is itself removal-tagged. History: every third case is remapped again on the input assembly object the previous case (same input, other script) already used, another third on an object that first went through the same script with Target added; the result must equal the fresh-input result.'
CHECK.rule += ' Decoration Painted+X+Target (Target on a name-tagged chromosome) for scripts of one or two Pretext scaffolds.'
