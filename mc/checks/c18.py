"""
C18 - overlap results keep span and content consistent under every edit sequence.

E2: explicit-state breadth-first search to fixpoint.  Initial states: every
scaffold of <= K rows over a 6-row alphabet x every bait, through the real
find_overlaps.  Transitions: the real OverlapResult operations.  A state is
re-created by replaying its (shortest) operation history on a fresh lookup
result, never by copying objects.
"""

import itertools
from collections import deque

from mc.engine import Check
from tola.assembly.fragment import Fragment
from tola.assembly.gap import Gap
from tola.assembly.indexed_assembly import IndexedAssembly
from tola.assembly.scaffold import Scaffold

ALPHA = [("F", 1, 1), ("F", 3, 1), ("F", 3, -1), ("F", 5, 1), ("G", 1, 0), ("G", 2, 0)]

# rows long enough for a short bait to overhang by more than every error length on both sides
LONGROW = [
    [("F", 12, 1)],
    [("F", 12, -1)],
    [("F", 7, 1)],
    [("F", 12, 1), ("G", 1, 0)],
    [("G", 2, 0), ("F", 12, 1)],
    [("F", 1, 1), ("F", 12, 1)],
    [("F", 12, 1), ("F", 1, 1)],
    [("F", 12, 1), ("G", 2, 0), ("F", 12, -1)],
    [("F", 3, 1), ("G", 1, 0), ("F", 12, 1), ("G", 1, 0), ("F", 3, 1)],
    # zero-length gap rows (both parsers accept them)
    [("F", 3, 1), ("G", 0, 0), ("F", 3, 1)],
    [("F", 5, 1), ("G", 0, 0), ("G", 1, 0), ("F", 3, -1)],
    [("G", 0, 0), ("F", 3, 1), ("F", 1, 1), ("G", 0, 0)],
    # contigs of unknown orientation (AGP "?", strand 0)
    [("F", 12, 0)],
    [("F", 5, 0), ("G", 1, 0), ("F", 3, 1)],
    [("F", 3, -1), ("F", 5, 0)],
]

OPS = (
    [("discard_start",), ("discard_end",)]
    + [("trim_large_overhangs", e) for e in (1, 2, 4)]
    + [("trim_fragment", which, ks, ke) for which in ("first", "last") for ks in (False, True) for ke in (False, True)]
)


def build(spec):
    rows = []
    for _i, (kind, ln, strand) in enumerate(spec):
        if kind == "F":
            # named after the alphabet letter, not the position: a scaffold that lists the same contig interval twice
            # has two rows that are equal by value but are different objects
            rows.append(Fragment(f"c{ln}{'m' if strand == -1 else 'p'}", 11, 10 + ln, strand))
        else:
            rows.append(Gap(ln, "scaffold" if ln == 1 else "contig"))
    return Scaffold("s", rows)


def base_map_rows(rows, zero=1):
    """
    zero: how the bases of a contig of unknown orientation (strand 0) are laid along the scaffold.  The statement cannot
    say which end of such a contig a cut removes, so the invariant accepts either reading (consistently).
    """
    out = []
    for r in rows:
        if isinstance(r, Gap):
            out.extend([("gap", r.gap_type)] * r.length)
        elif r.strand == -1 or (r.strand == 0 and zero == -1):
            out.extend((r.name, c, r.strand) for c in range(r.end, r.start - 1, -1))
        else:
            out.extend((r.name, c, r.strand) for c in range(r.start, r.end + 1))
    return out


def apply_op(res, op):
    """returns True if accepted, False if it raised"""
    try:
        if op[0] == "discard_start":
            res.discard_start()
        elif op[0] == "discard_end":
            res.discard_end()
        elif op[0] == "trim_large_overhangs":
            res.trim_large_overhangs(op[1])
        else:
            _, which, ks, ke = op
            frag = res.rows[0] if which == "first" else res.rows[-1]
            if isinstance(frag, Gap):
                return False
            res.trim_fragment(frag, keep_start=ks, keep_end=ke)
        return True
    except (IndexError, ValueError):
        return False


def canon(res):
    return (
        tuple(
            ("G", r.length, r.gap_type) if isinstance(r, Gap) else ("F", r.name, r.start, r.end, r.strand)
            for r in res.rows
        ),
        res.start,
        res.end,
    )


def isect(a1, a2, b1, b2):
    s, e = max(a1, b1), min(a2, b2)
    return e - s + 1 if e >= s else 0


class C18(Check):
    pid = "C18"
    level_text = (
        "Explicit-state BFS to fixpoint over the real OverlapResult operations from every lookup of a bounded scope; the invariant is evaluated in every reachable state and the source scaffold must stay untouched."
    )
    technique = (
        "explicit-state BFS to fixpoint over the real OverlapResult operations from every lookup result of a "
        "bounded scaffold x bait scope; invariant checked in every reachable state"
    )
    rule = (
        "initial states: every scaffold of 1..K rows over {F1,F3,F3(-),F5,G1,G2} x every bait 1<=a<=b<=L+2 via the real "
        "find_overlaps; transitions: discard_start, discard_end, trim_large_overhangs(1|2|4), trim_fragment(first|last x keep flags); "
        "state = (rows,start,end) re-created by replaying its op history on a fresh lookup; search runs to fixpoint per initial state. "
        "non-trivial = state reached by at least one accepted operation that changed it"
        " The source scaffold must be unchanged after every operation; a lookup that fails or changes after edits is a violation."
    )
    assumptions = ["row lengths from {1,3,5}/{1,2}; <= K rows; all OverlapResult state is (rows,start,end,bait)"]
    shard_timeout = {"quick": 300, "thorough": 3600}

    def bounds(self, tier):
        return {"max_rows": 4 if tier == "quick" else 5, "err_lengths": [1, 2, 4], "bait_past_end": 2}

    def shards(self, tier):
        k = self.bounds(tier)["max_rows"]
        out = [("one", i, k) for i in range(6)]
        out += [("longrow", i) for i in range(len(LONGROW))]
        out += [("pre", i, j, k) for i in range(6) for j in range(6)]
        return out

    def run_shard(self, shard, ctx):
        k = shard[-1]
        if shard[0] == "longrow":
            self.explore_scaffold(LONGROW[shard[1]], ctx)
            ctx.sample({"scaffold": LONGROW[shard[1]], "baits": "all", "ops": "BFS to fixpoint"})
            return
        if shard[0] == "one":
            self.explore_scaffold([ALPHA[shard[1]]], ctx)
            return
        pre = [ALPHA[shard[1]], ALPHA[shard[2]]]
        for extra in range(0, k - 2 + 1):
            for tail in itertools.product(ALPHA, repeat=extra):
                self.explore_scaffold(pre + list(tail), ctx)
        ctx.sample({"scaffold": pre + [ALPHA[3]] * (k - 2), "baits": "all", "ops": "BFS to fixpoint"})

    def explore_scaffold(self, spec, ctx):
        scffld = build(spec)
        ia = IndexedAssembly("t", scaffolds=[scffld])
        src_map = (base_map_rows(scffld.rows, 1), base_map_rows(scffld.rows, -1))
        ln = scffld.length
        for a in range(1, ln + 3):
            for b in range(a, ln + 3):
                self.explore_bait(spec, scffld, ia, src_map, a, b, ctx)

    def fresh(self, ia, a, b, hist):
        res = ia.find_overlaps(Fragment("s", a, b, 1, ("Painted", "Hap1")))
        if res is None:
            return None
        for op in hist:
            apply_op(res, op)
        return res

    def source_intact(self, scffld, src_ids, case, ctx):
        """editing a lookup result must never change the scaffold it was taken from"""
        if [id(r) for r in scffld.rows] != src_ids:
            ctx.violation("source-scaffold-modified", case, f"source rows now {scffld.rows!r}")
            return False
        return True

    def explore_bait(self, spec, scffld, ia, src_map, a, b, ctx, only_hist=None):
        case0 = [[list(r) for r in spec], a, b]
        ctx.cur = case0
        self._src_ids = [id(r) for r in scffld.rows]
        try:
            res = self.fresh(ia, a, b, ())
        except Exception as e:  # noqa: BLE001
            ctx.violation(f"lookup-raises:{type(e).__name__}", case0 + [[]], repr(e))
            return
        if res is None:
            return
        if only_hist is not None:
            # replay mode: check every prefix of one history
            for n in range(len(only_hist) + 1):
                h = tuple(tuple(op) for op in only_hist[:n])
                try:
                    r = self.fresh(ia, a, b, h)
                except Exception as e:  # noqa: BLE001
                    ctx.violation(f"lookup-raises:{type(e).__name__}", case0 + [[list(o) for o in h]], repr(e))
                    return
                if r is None:
                    ctx.violation("lookup-result-changed-after-edits", case0 + [[list(o) for o in h]], "the same lookup now returns None")
                    return
                self.invariant(r, scffld, src_map, case0 + [[list(o) for o in h]], ctx)
                if n < len(only_hist):
                    self.transition(ia, a, b, h, tuple(only_hist[n]), scffld, src_map, case0, ctx)
            return
        seen = {canon(res): ()}
        ctx.states += 1
        self.invariant(res, scffld, src_map, case0 + [[]], ctx)
        frontier = deque([()])
        while frontier:
            hist = frontier.popleft()
            for op in OPS:
                nxt = self.transition(ia, a, b, hist, op, scffld, src_map, case0, ctx)
                if nxt is None:
                    continue
                key = canon(nxt)
                if key not in seen:
                    seen[key] = hist + (op,)
                    ctx.states += 1
                    ctx.nontrivial += 1
                    if nxt.rows:
                        frontier.append(hist + (op,))
        ctx.evaluations += 1
        ctx.outcome((tuple(spec), a, b, len(seen)))

    def transition(self, ia, a, b, hist, op, scffld, src_map, case0, ctx):
        case = case0 + [[list(o) for o in hist + (op,)]]
        try:
            res = self.fresh(ia, a, b, hist)
        except Exception as e:  # noqa: BLE001
            ctx.violation(f"lookup-raises:{type(e).__name__}", case, repr(e))
            return None
        if res is None:
            ctx.violation("lookup-result-changed-after-edits", case, "the same lookup now returns None")
            return None
        before = canon(res)
        pre = None
        if res.rows:
            try:
                pre = (res.overhang_if_start_removed(), res.overhang_if_end_removed(), res.start_overhang, res.end_overhang)
            except Exception:  # noqa: BLE001
                pre = None
        accepted = apply_op(res, op)
        ctx.transitions += 1
        ctx.cur = case
        if not self.source_intact(scffld, self._src_ids, case, ctx):
            return None
        self.invariant(res, scffld, src_map, case, ctx)
        if not accepted:
            ctx.count("op_not_accepted")
            if canon(res) != before:
                ctx.count("rejected_op_changed_state")  # not a claim of the statement (it quantifies over accepted operations)
            return None
        # differential oracles on accepted operations
        if pre is not None and res.rows:
            if op[0] == "discard_start" and res.start_overhang != pre[0]:
                ctx.violation("overhang_if_start_removed-mismatch", case, f"predicted {pre[0]} got {res.start_overhang}")
            if op[0] == "discard_end" and res.end_overhang != pre[1]:
                ctx.violation("overhang_if_end_removed-mismatch", case, f"predicted {pre[1]} got {res.end_overhang}")
        if op[0] == "trim_fragment" and res.rows:
            _, which, ks, ke = op
            first_and_last = len(res.rows) == 1
            if (which == "first" or first_and_last) and not ks and res.start_overhang > 0:
                ctx.violation("trim-left-start-overhang", case, f"start_overhang {res.start_overhang} after trim")
            if (which == "last" or first_and_last) and not ke and res.end_overhang > 0:
                ctx.violation("trim-left-end-overhang", case, f"end_overhang {res.end_overhang} after trim")
            if ks and (which == "first" or first_and_last) and pre and res.start_overhang != pre[2]:
                ctx.violation("keep_start-moved-start", case, f"{pre[2]} -> {res.start_overhang}")
            if ke and (which == "last" or first_and_last) and pre and res.end_overhang != pre[3]:
                ctx.violation("keep_end-moved-end", case, f"{pre[3]} -> {res.end_overhang}")
        if canon(res) == before:
            ctx.count("op_noop")
        else:
            ctx.count("op_" + op[0])
        return res

    def invariant(self, res, scffld, src_map, case, ctx):
        rows = res.rows
        total = sum(r.length for r in rows)
        if res.end - res.start + 1 != total:
            ctx.violation("span-ne-row-length", case, f"start={res.start} end={res.end} rows={rows!r} sum={total}")
            return
        if res.length != total:
            ctx.violation("length-property", case, f"length={res.length} sum={total}")
        if not rows:
            return
        if res.start < 1 or res.end > len(src_map[0]):
            ctx.violation("span-outside-scaffold", case, f"{res.start}-{res.end} L={len(src_map[0])}")
            return
        if base_map_rows(rows, 1) != src_map[0][res.start - 1 : res.end] and base_map_rows(rows, -1) != src_map[1][res.start - 1 : res.end]:
            ctx.violation("rows-not-source-run", case, f"start={res.start} end={res.end} rows={rows!r}")
            return
        if isinstance(rows[0], Gap) or isinstance(rows[-1], Gap):
            ctx.violation("terminal-gap", case, f"rows={rows!r}")
        for r in rows[1:-1]:
            if not any(r is s for s in scffld.rows):
                ctx.violation("interior-row-replaced", case, f"{r!r}")
        bs, be = res.bait.start, res.bait.end
        first_end = res.start + rows[0].length - 1
        last_start = res.end - rows[-1].length + 1
        exp = {
            "start_overhang": bs - res.start,
            "end_overhang": res.end - be,
            "start_row_bait_overlap": isect(res.start, first_end, bs, be),
            "end_row_bait_overlap": isect(last_start, res.end, bs, be),
        }
        # position of the next / previous fragment row
        p = res.start + rows[0].length
        for r in rows[1:]:
            if isinstance(r, Gap):
                p += r.length
            else:
                break
        exp["overhang_if_start_removed"] = bs - p
        q = res.end - rows[-1].length
        for r in rows[-2::-1]:
            if isinstance(r, Gap):
                q -= r.length
            else:
                break
        exp["overhang_if_end_removed"] = q - be
        got = {
            "start_overhang": res.start_overhang,
            "end_overhang": res.end_overhang,
            "start_row_bait_overlap": res.start_row_bait_overlap,
            "end_row_bait_overlap": res.end_row_bait_overlap,
            "overhang_if_start_removed": res.overhang_if_start_removed(),
            "overhang_if_end_removed": res.overhang_if_end_removed(),
        }
        if got != exp:
            bad = sorted(k for k in exp if exp[k] != got[k])
            ctx.violation("figure:" + bad[0], case, f"got {got!r} expected {exp!r}")

    def replay(self, case, ctx):
        spec, a, b, hist = case
        spec = [tuple(r) for r in spec]
        scffld = build(spec)
        ia = IndexedAssembly("t", scaffolds=[scffld])
        src_map = (base_map_rows(scffld.rows, 1), base_map_rows(scffld.rows, -1))
        self.explore_bait(spec, scffld, ia, src_map, a, b, ctx, only_hist=[tuple(o) for o in hist])


CHECK = C18()
# scope added in later rounds, kept in the evidence text
CHECK.rule += ' Scaffolds that list the same contig interval twice (rows equal by value, distinct objects). Long-row family: twelve scaffolds with rows of 7 / 12 bases rows of unknown orientation (strand 0) and zero-length gap rows (a short bait overhangs by more than every error length on both sides).'
