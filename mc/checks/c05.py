"""
C05 - AGP and TPF parse/format round-trip without loss.

E1: assemblies from small alphabets (names with ':' '-' ' ', coordinates up to
10^12, strands + - ?, tags, every AGP gap type, repeated non-adjacent scaffold
names, header variants) -> round trips; every single-column deletion and a
list of bad-token substitutions on every data line -> error or same row count.
"""

import io
import itertools

from mc.engine import Check, h64
from tola.assembly.assembly import Assembly
from tola.assembly.format import format_agp, format_tpf
from tola.assembly.fragment import Fragment
from tola.assembly.gap import Gap
from tola.assembly.parser import parse_agp, parse_tpf
from tola.assembly.scaffold import Scaffold

BIG = 10**12
GAP_TYPES = ["scaffold", "contig", "centromere", "short_arm", "heterochromatin", "telomere", "repeat", "contamination"]
FRAG_NAMES = ["c1", "a:b", "x-1:2-3", "p q r", "k%s%%", "k\x85m\x1cn"]
COORDS = [(1, 1), (1, 5), (5, BIG)]
TAGSETS = [(), ("Painted",), ("Painted", "X"), ("Painted", "W", "Haplotig", "Unloc", "Hap1", "Cut"), ("Hap1", "Painted", "Hap1")]

FULL = [("F", n, s, e, st, t) for n in FRAG_NAMES for s, e in COORDS for st in (1, -1, 0) for t in TAGSETS] + [
    ("G", ln, gt) for ln in (1, 200, BIG) for gt in GAP_TYPES
]
REDUCED = [
    ("F", "c1", 1, 5, 1, ()),
    ("F", "a:b", 5, BIG, -1, ("Painted",)),
    ("F", "x-1:2-3", 1, 1, 0, ("Painted", "X")),
    ("F", "c1", 1, 1, -1, ()),
    ("F", " p q", 2, 3, 1, ()),
    ("F", "c1", 6, 9, 1, ("Painted", "W", "Haplotig", "Unloc", "Hap1", "Cut", "Singleton")),
    ("G", 200, "scaffold"),
    ("G", 200, "contig"),
    ("G", 1, "centromere"),
    ("G", BIG, "short_arm"),
]
NAMES = ["s1", "a:b", "x-1", "1:2-3", "s 1", "_", "scé", " s1", "s1 ", "u%%7", "50%", "c%d_r", "a\x0bb", "c\u2028d"]
HEADERS = [(), ("HiC MAP RESOLUTION: 2.500000 bp/texel",), ("text with  inner spaces", "second: line", "trailing blank ")]


def build(spec, headers=()):
    asm = Assembly("t", header=list(headers))
    for name, rows in spec:
        sc = Scaffold(name)
        for r in rows:
            sc.add_row(Gap(r[1], r[2]) if r[0] == "G" else Fragment(r[1], r[2], r[3], r[4], tuple(r[5])))
        asm.add_scaffold(sc)
    return asm


def snapshot(asm, drop_tags=False):
    return (
        tuple(asm.header),
        tuple(
            (
                sc.name,
                tuple(
                    ("G", r.length, r.gap_type) if isinstance(r, Gap) else ("F", r.name, r.start, r.end, r.strand, () if drop_tags else tuple(r.tags))
                    for r in sc.rows
                ),
            )
            for sc in asm.scaffolds
        ),
    )


def snapshot_of_spec(spec, headers=()):
    """what a faithful parse must give, taken from the case description itself (never from library objects)"""
    return (
        tuple(headers),
        tuple(
            (name, tuple(("G", r[1], r[2]) if r[0] == "G" else ("F", r[1], r[2], r[3], r[4], tuple(r[5])) for r in rows))
            for name, rows in spec
        ),
    )


def tpf_domain(spec):
    for _, rows in spec:
        if not rows or rows[0][0] == "G":
            return False
        for r in rows:
            if r[0] == "F" and (r[4] == 0 or r[5]):
                return False
    return True


def fmt(asm, kind):
    out = io.StringIO()
    (format_agp if kind == "AGP" else format_tpf)(asm, out)
    return out.getvalue()


def parse(text, kind):
    return (parse_agp if kind == "AGP" else parse_tpf)(io.StringIO(text), "t")


def data_lines(text):
    # (lines end at "\n" only: names may contain other characters that str.splitlines() would break at)
    return [ln for ln in text.split("\n") if ln.strip(" \t\r") and not ln.startswith("#")]


class C05(Check):
    pid = "C05"
    level_text = (
        "Bounded exhaustive over assemblies from small alphabets and over every single-column deletion / token substitution of every canonical line; round trips compared as objects and as bytes."
    )
    technique = (
        "exhaustive scope enumeration on the real parsers/formatters: all assemblies over small row/name/header alphabets, "
        "all single-column deletions and bad-token substitutions of every canonical line; asm-format CLI slice"
    )
    rule = (
        "assemblies: (S1) one scaffold, every sequence of 1-2 rows over the full alphabet (3 names x 3 coordinate pairs incl. 10^12 x 3 strands x "
        "3 tag tuples + 3 gap lengths x 8 AGP gap types = 105 rows); (S2) one scaffold, every sequence of 3-4 rows over 8 representative rows, x 3 header "
        "variants; (S3) 2-3 scaffolds, every ordered name pair from 7 names (':' '-' ' ' '_' non-ASCII) and every (a,b,a) name triple, rows <=2 over the "
        "8 rows. For each: AGP round trip (objects and bytes); TPF round trip and AGP->TPF->AGP when in the TPF domain; rows == data lines. "
        "Corruptions: every single-column deletion and 12 token substitutions on every data line of S2/S3 texts: parse raises or keeps the row count. "
        "CLI: asm-format on S2 texts (stdin and file, AGP<->TPF). non-trivial = assembly with a gap, a tag, a non-plain name or a coordinate >= 10^12, or any corruption case"
        " Names with inner / leading / trailing blanks, header with trailing blank; expectations come from the case description, never from library objects; long assemblies of 16384 / 16385 / 40000 / 70001 rows."
    )
    assumptions = [
        "domain as the statement gives it: names without tab/newline (inner, leading and trailing blanks are in scope), non-empty, neighbouring scaffold names distinct; tags without trailing blanks (last column); header lines not starting with '#' or blank",
        "TPF domain: no tags, strands +/-, no scaffold starting with a gap, gap types in [a-z_]",
    ]

    def bounds(self, tier):
        return {"full_alphabet_rows": len(FULL), "reduced_rows": len(REDUCED), "s1_len": 2, "s2_len": 4 if tier == "quick" else 5, "names": NAMES}

    def shards(self, tier):
        out = [("s1", i) for i in range(len(FULL))]
        out += [("s2", i, self.bounds(tier)["s2_len"]) for i in range(len(REDUCED))]
        out += [("s3", i) for i in range(len(NAMES))]
        out += [("corrupt", i) for i in range(len(REDUCED))]
        out += [("cli", i) for i in range(4)]
        out += [("long", n) for n in (16_384, 16_385, 40_000, 70_001)]
        return out

    def check_long(self, nrows, ctx):
        """one assembly of nrows rows (several scaffolds, gaps on odd rows): constants hidden in writers/parsers"""
        per = max(2, nrows // 3)
        spec = []
        k = 0
        for si in range(3):
            rows = []
            n = per if si < 2 else nrows - 2 * per
            for i in range(n):
                k += 1
                if i % 2 == 1 and i != n - 1:
                    rows.append(("G", 200 if i % 4 == 1 else 7, "scaffold" if i % 4 == 1 else "contig"))
                else:
                    rows.append(("F", f"ctg{k}", 1, 100 + (k % 50), 1 if k % 3 else -1, ()))
            spec.append((f"SUPER_{si + 1}", rows))
        case = ["long", nrows]
        ctx.cur = case
        ctx.evaluations += 1
        ctx.nontrivial += 1
        asm = build(spec, HEADERS[1])
        want = snapshot_of_spec(spec, HEADERS[1])
        for kind in ("AGP", "TPF"):
            try:
                text = fmt(asm, kind)
                back = parse(text, kind)
            except Exception as e:  # noqa: BLE001
                ctx.violation(f"long-{kind.lower()}-raises:{type(e).__name__}", case, repr(e)[:300])
                continue
            if len(data_lines(text)) != nrows:
                ctx.violation(f"long-{kind.lower()}-rows-ne-lines", case, f"{len(data_lines(text))} data lines for {nrows} rows")
            got = snapshot(back)
            if got != want:
                bad = [(a[0], len(a[1]), len(b[1])) for a, b in zip(got[1], want[1]) if a != b][:2]
                ctx.violation(f"long-{kind.lower()}-roundtrip", case, f"scaffolds differ: {bad!r}")
            elif fmt(back, kind) != text:
                ctx.violation(f"long-{kind.lower()}-bytes", case, "")
        ctx.sample({"long": nrows})

    # ------------------------------------------------------------------
    def check_asm(self, spec, headers, ctx):
        case = ["asm", [[n, [list(r) for r in rows]] for n, rows in spec], list(headers)]
        ctx.cur = case
        ctx.evaluations += 1
        nontriv = any(r[0] == "G" or r[5] or r[3] >= BIG or r[1] != "c1" for _, rows in spec for r in rows) or any(n != "s1" for n, _ in spec)
        if nontriv:
            ctx.nontrivial += 1
        asm = build(spec, headers)
        want = snapshot_of_spec(spec, headers)
        if snapshot(asm) != want:
            ctx.violation("constructed-assembly-differs-from-its-description", case, f"{snapshot(asm)!r} != {want!r}")
            return
        nrows = sum(len(rows) for _, rows in spec)
        try:
            agp = fmt(asm, "AGP")
            back = parse(agp, "AGP")
        except Exception as e:  # noqa: BLE001
            ctx.violation(f"agp-raises:{type(e).__name__}", case, repr(e))
            return
        if snapshot(back) != want:
            ctx.violation("agp-roundtrip-objects", case, f"got {snapshot(back)!r} expected {want!r}")
        elif fmt(back, "AGP") != agp:
            ctx.violation("agp-roundtrip-bytes", case, "")
        if len(data_lines(agp)) != nrows or sum(len(s.rows) for s in back.scaffolds) != nrows:
            ctx.violation("agp-rows-ne-lines", case, f"{len(data_lines(agp))} lines, {nrows} rows")
        ctx.outcome(h64(agp))
        if not tpf_domain(spec):
            # outside the TPF domain the only demand is 'loud or same row count'
            try:
                tpf = fmt(asm, "TPF")
                tb = parse(tpf, "TPF")
                if sum(len(s.rows) for s in tb.scaffolds) != len(data_lines(tpf)):
                    ctx.violation("tpf-rows-ne-lines/outside-domain", case, "")
            except Exception:  # noqa: BLE001
                ctx.count("tpf_outside_domain_raises")
            return
        try:
            tpf = fmt(asm, "TPF")
            tb = parse(tpf, "TPF")
        except Exception as e:  # noqa: BLE001
            ctx.violation(f"tpf-raises:{type(e).__name__}", case, repr(e))
            return
        if snapshot(tb) != want:
            ctx.violation("tpf-roundtrip-objects", case, f"got {snapshot(tb)!r} expected {want!r}")
        elif fmt(tb, "TPF") != tpf:
            ctx.violation("tpf-roundtrip-bytes", case, "")
        if len(data_lines(tpf)) != nrows:
            ctx.violation("tpf-rows-ne-lines", case, "")
        # AGP -> TPF -> AGP
        via = parse(fmt(parse(agp, "AGP"), "TPF"), "TPF")
        if fmt(via, "AGP") != agp:
            ctx.violation("agp-tpf-agp", case, f"{fmt(via, 'AGP')!r} != {agp!r}")

    def check_tagged_conversion(self, spec, ctx):
        """AGP -> TPF -> AGP changes nothing except dropping tags (tagged, otherwise TPF-compatible)"""
        stripped = [(n, [r if r[0] == "G" else (*r[:5], ()) for r in rows]) for n, rows in spec]
        if not tpf_domain(stripped) or tpf_domain(spec):
            return
        case = ["tagconv", [[n, [list(r) for r in rows]] for n, rows in spec]]
        ctx.cur = case
        ctx.evaluations += 1
        ctx.nontrivial += 1
        try:
            agp = fmt(build(spec), "AGP")
            via = parse(fmt(parse(agp, "AGP"), "TPF"), "TPF")
        except Exception as e:  # noqa: BLE001
            ctx.violation(f"tagged-conversion-raises:{type(e).__name__}", case, repr(e))
            return
        if snapshot(via) != snapshot(build(stripped)):
            ctx.violation("agp-tpf-agp-tags", case, f"{snapshot(via)!r}")

    # ------------------------------------------------------------------
    SUBS = ["x", "", "abc", "-5", "1.5", "zz", "+-", "PLUS PLUS", "0x10", "1e3", " ", "?"]

    def corruptions(self, line):
        cols = line.split("\t")
        for i in range(len(cols)):
            yield "del%d" % i, "\t".join(cols[:i] + cols[i + 1 :])
        for i in range(len(cols)):
            for sub in self.SUBS:
                if sub != cols[i]:
                    yield "sub%d" % i, "\t".join(cols[:i] + [sub] + cols[i + 1 :])

    def check_corruptions(self, spec, kind, ctx):
        asm = build(spec)
        text = fmt(asm, kind)
        lines = text.split("\n")[:-1] if text.endswith("\n") else text.split("\n")
        nrows = len(data_lines(text))
        for li, line in enumerate(lines):
            if not line.strip() or line.startswith("#"):
                continue
            for label, bad in self.corruptions(line):
                case = ["corrupt", kind, [[n, [list(r) for r in rows]] for n, rows in spec], li, label, bad]
                ctx.cur = case
                ctx.evaluations += 1
                ctx.nontrivial += 1
                t2 = "\n".join(lines[:li] + [bad] + lines[li + 1 :]) + "\n"
                self.one_corruption(t2, kind, nrows, case, ctx)

    def one_corruption(self, t2, kind, nrows, case, ctx):
        expect = len(data_lines(t2))  # a substitution may blank the line: then it is no data line
        try:
            got = parse(t2, kind)
        except Exception as e:  # noqa: BLE001
            ctx.count("corruption_rejected_" + type(e).__name__)
            return
        n = sum(len(s.rows) for s in got.scaffolds)
        ctx.count("corruption_accepted")
        if n != expect:
            ctx.violation(f"line-silently-dropped-or-merged/{kind}", case, f"{expect} data lines -> {n} rows")

    # ------------------------------------------------------------------
    def check_cli(self, part, ctx):
        import os
        import shutil
        import tempfile
        from pathlib import Path

        from click.testing import CliRunner

        from tola.assembly.scripts.asm_format import cli

        base = "/dev/shm" if Path("/dev/shm").is_dir() else None
        d = Path(tempfile.mkdtemp(prefix="verif_c05_", dir=base))
        runner = CliRunner()
        try:
            n = 0
            for k in (1, 2, 3):
                for rows in itertools.product(REDUCED, repeat=k):
                    n += 1
                    if n % 4 != part:
                        continue
                    spec = [("s1", list(rows))]
                    asm = build(spec, HEADERS[1])
                    agp = fmt(asm, "AGP")
                    case = ["cli", [["s1", [list(r) for r in rows]]]]
                    ctx.cur = case
                    ctx.evaluations += 1
                    ctx.nontrivial += 1
                    # stdin -> stdout AGP
                    r = runner.invoke(cli, ["-i", "AGP", "-f", "AGP"], input=agp)
                    if r.exit_code != 0 or r.stdout != agp:
                        ctx.violation("cli-agp-stdin", case, f"exit {r.exit_code}: {r.stdout[:300]!r}")
                        continue
                    # file -> file
                    src = d / "in.agp"
                    dst = d / "out.agp"
                    src.write_text(agp)
                    r = runner.invoke(cli, [str(src), "-o", str(dst)])
                    if r.exit_code != 0 or dst.read_text() != agp:
                        ctx.violation("cli-agp-file", case, f"exit {r.exit_code}")
                    if tpf_domain(spec):
                        tpf = fmt(asm, "TPF")
                        dstt = d / "out.tpf"
                        r = runner.invoke(cli, [str(src), "-o", str(dstt)])
                        if r.exit_code != 0 or dstt.read_text() != tpf:
                            ctx.violation("cli-agp-to-tpf", case, f"exit {r.exit_code}")
                        r = runner.invoke(cli, [str(dstt), "-f", "AGP"])
                        if r.exit_code != 0 or r.stdout != agp:
                            ctx.violation("cli-tpf-to-agp", case, f"exit {r.exit_code}: {r.stdout[:300]!r}")
                        # the same conversions with file extensions in other letter cases
                        for e_agp, e_tpf in ((".AGP", ".TPF"), (".Agp", ".Tpf")):
                            s2, t2, a2 = d / f"in2{e_agp}", d / f"step{e_tpf}", d / f"back{e_agp}"
                            s2.write_text(agp)
                            r = runner.invoke(cli, [str(s2), "-o", str(t2)])
                            if r.exit_code != 0 or t2.read_text() != tpf:
                                ctx.violation("cli-agp-to-tpf/extension-case", case, f"{e_agp}->{e_tpf}: exit {r.exit_code}: {t2.read_text()[:200] if t2.exists() else None!r}")
                            else:
                                r = runner.invoke(cli, [str(t2), "-o", str(a2)])
                                if r.exit_code != 0 or a2.read_text() != agp:
                                    ctx.violation("cli-tpf-to-agp/extension-case", case, f"{e_tpf}->{e_agp}: exit {r.exit_code}")
                            for p in (s2, t2, a2):
                                if p.exists():
                                    os.unlink(p)
                    for p in (src, dst, d / "out.tpf"):
                        if p.exists():
                            os.unlink(p)
            # several input files into one output file: every input's rows must arrive, in order
            if part == 0:
                for k in (2, 3):
                    for rows_sets in itertools.product([[REDUCED[0]], [REDUCED[0], REDUCED[5], REDUCED[3]], [REDUCED[3], REDUCED[4], REDUCED[0]]], repeat=k):
                        texts = []
                        paths = []
                        for i, rows in enumerate(rows_sets):
                            t = fmt(build([(f"s{i + 1}", list(rows))], ()), "AGP")
                            pth = d / f"in{i}.agp"
                            pth.write_text(t)
                            texts.append(t)
                            paths.append(str(pth))
                        case = ["cli-multi", [[list(r) for r in rows] for rows in rows_sets]]
                        ctx.cur = case
                        ctx.evaluations += 1
                        ctx.nontrivial += 1
                        dst = d / "multi.agp"
                        r = runner.invoke(cli, [*paths, "-o", str(dst)])
                        if r.exit_code != 0 or dst.read_text() != "".join(texts):
                            ctx.violation("cli-several-inputs-one-output", case, f"exit {r.exit_code}: {dst.read_text()[:300] if dst.exists() else None!r}")
                        r = runner.invoke(cli, [*paths])
                        if r.exit_code != 0 or r.stdout != "".join(texts):
                            ctx.violation("cli-several-inputs-stdout", case, f"exit {r.exit_code}")
                        for pth in paths:
                            os.unlink(pth)
                        if dst.exists():
                            os.unlink(dst)
                # input files of different formats in one invocation (format guessed per file from its extension)
                sets = [[REDUCED[0]], [REDUCED[0], REDUCED[6], REDUCED[3]], [REDUCED[3], REDUCED[7], REDUCED[0]]]
                for k in (2, 3):
                    for rows_sets in itertools.product(sets, repeat=k):
                        for kinds in itertools.product(("AGP", "TPF"), repeat=k):
                            if len(set(kinds)) < 2:
                                continue
                            agps, tpfs, paths = [], [], []
                            for i, (rows, kind) in enumerate(zip(rows_sets, kinds)):
                                asm = build([(f"s{i + 1}", list(rows))], ())
                                agps.append(fmt(asm, "AGP"))
                                tpfs.append(fmt(asm, "TPF"))
                                pth = d / f"in{i}.{kind.lower()}"
                                pth.write_text(agps[-1] if kind == "AGP" else tpfs[-1])
                                paths.append(str(pth))
                            case = ["cli-multi-mixed", [[list(r) for r in rows] for rows in rows_sets], list(kinds)]
                            ctx.cur = case
                            ctx.evaluations += 1
                            ctx.nontrivial += 1
                            for ext, want in (("agp", "".join(agps)), ("tpf", "".join(tpfs))):
                                dst = d / f"multi.{ext}"
                                r = runner.invoke(cli, [*paths, "-o", str(dst)])
                                if r.exit_code != 0 or dst.read_text() != want:
                                    ctx.violation("cli-several-inputs-mixed-formats", case, f"-o multi.{ext}: exit {r.exit_code}: {dst.read_text()[:300] if dst.exists() else None!r}")
                                if dst.exists():
                                    os.unlink(dst)
                            for pth in paths:
                                os.unlink(pth)
            ctx.sample({"cli": "asm-format stdin/file, AGP<->TPF, several inputs", "rows": [list(r) for r in REDUCED[:2]]})
        finally:
            shutil.rmtree(d, ignore_errors=True)

    # ------------------------------------------------------------------
    def run_shard(self, shard, ctx):
        kind = shard[0]
        if kind == "s1":
            r1 = FULL[shard[1]]
            self.check_asm([("s1", [r1])], (), ctx)
            for r2 in FULL:
                spec = [("s1", [r1, r2])]
                self.check_asm(spec, (), ctx)
                self.check_tagged_conversion(spec, ctx)
            ctx.sample({"scaffolds": [["s1", [list(r1), list(FULL[-1])]]]})
        elif kind == "s2":
            _, i, ln = shard
            for k in range(2, ln):
                for tail in itertools.product(REDUCED, repeat=k):
                    spec = [("s1", [REDUCED[i], *tail])]
                    for h in HEADERS if k == 2 else HEADERS[:1]:
                        self.check_asm(spec, h, ctx)
                    self.check_tagged_conversion(spec, ctx)
            ctx.sample({"scaffolds": [["s1", [list(REDUCED[i]), list(REDUCED[4]), list(REDUCED[1])]]], "header": list(HEADERS[1])})
        elif kind == "s3":
            n1 = NAMES[shard[1]]
            short = [list(t) for k in (1, 2) for t in itertools.product(REDUCED, repeat=k)]
            for n2 in NAMES:
                if n2 == n1:
                    continue
                for rows1 in short:
                    for rows2 in short:
                        self.check_asm([(n1, rows1), (n2, rows2)], (), ctx)
                # (a, b, a): a scaffold name that comes back after another one
                for rows1 in short[: len(REDUCED)]:
                    for rows2 in short[: len(REDUCED)]:
                        for rows3 in short[: len(REDUCED)]:
                            self.check_asm([(n1, rows1), (n2, rows2), (n1, rows3)], HEADERS[1], ctx)
            ctx.sample({"scaffolds": [[n1, [list(REDUCED[0])]], ["s1" if n1 != "s1" else "_", [list(REDUCED[4 if False else 0])]], [n1, [list(REDUCED[3])]]]})
        elif kind == "corrupt":
            i = shard[1]
            for k in (0, 1, 2):
                for tail in itertools.product(REDUCED, repeat=k):
                    spec = [("s1", [REDUCED[i], *tail])]
                    self.check_corruptions(spec, "AGP", ctx)
                    if tpf_domain(spec):
                        self.check_corruptions(spec, "TPF", ctx)
            for r2 in REDUCED:
                spec = [("a:b", [REDUCED[i]]), ("s 1", [r2]), ("a:b", [REDUCED[0]])]
                self.check_corruptions(spec, "AGP", ctx)
                if tpf_domain(spec):
                    self.check_corruptions(spec, "TPF", ctx)
            ctx.sample({"corrupt": "every column deletion / 12 substitutions per column per line", "scaffold": [list(REDUCED[i])]})
        elif kind == "cli":
            self.check_cli(shard[1], ctx)
        elif kind == "long":
            self.check_long(shard[1], ctx)

    def replay(self, case, ctx):
        kind = case[0]
        if kind == "long":
            return self.check_long(case[1], ctx)
        if kind == "asm":
            spec = [(n, [tuple(tuple(x) if isinstance(x, list) else x for x in r) for r in rows]) for n, rows in case[1]]
            self.check_asm(spec, tuple(case[2]), ctx)
        elif kind == "tagconv":
            spec = [(n, [tuple(tuple(x) if isinstance(x, list) else x for x in r) for r in rows]) for n, rows in case[1]]
            self.check_tagged_conversion(spec, ctx)
        elif kind == "corrupt":
            _, fkind, spec, li, label, bad = case
            spec = [(n, [tuple(tuple(x) if isinstance(x, list) else x for x in r) for r in rows]) for n, rows in spec]
            text = fmt(build(spec), fkind)
            lines = text.split("\n")[:-1] if text.endswith("\n") else text.split("\n")
            t2 = "\n".join(lines[:li] + [bad] + lines[li + 1 :]) + "\n"
            self.one_corruption(t2, fkind, len(data_lines(text)), case, ctx)
        elif kind in ("cli", "cli-multi", "cli-multi-mixed"):
            self.check_cli_one = None
            # re-run the whole CLI part that contains the case (cheap)
            for part in range(4):
                self.check_cli(part, ctx)


CHECK = C05()
# scope added in later rounds, kept in the evidence text
CHECK.rule += ' Rows with six tags; asm-format with two and three input files into one output (file and stdout), also with AGP and TPF inputs mixed in one invocation.'
CHECK.rule += " Scaffold and contig names containing '%' (u%%7, 50%, c%d_r, k%s%%)."
CHECK.rule += ' A tag tuple that repeats a tag (Hap1 Painted Hap1). CLI conversions also with file extensions .AGP/.TPF and .Agp/.Tpf.'
CHECK.rule += ' Names containing characters that str.splitlines() treats as line ends although they are neither tab nor newline (VT, FS, NEL, U+2028).'
