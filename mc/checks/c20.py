"""
C20 - scaffold ordering is total, numeric-aware and never fails.

Enumerated (E1): every name up to a length bound over a small alphabet (key
totality), every pair of such names (comparability / trichotomy), all
permutations of every k-subset of a name pool through the real sort methods
(order independence), parametric families for the stated order facts, and rank
assignments for "rank before name".
"""

import itertools

from mc.engine import Check, h64
from tola.assembly.assembly import Assembly
from tola.assembly.scaffold import Scaffold

ALPHA1 = "IVXa10_"
ALPHA2 = "IV2-.b"

POOL = [
    "SUPER_1", "SUPER_2", "SUPER_10", "SUPER_2_unloc_1", "SUPER_2_unloc_10",
    "SUPER_2_unloc_2", "SUPER_02", "I", "II", "III", "IV", "V", "X", "SUPER_3A",
    "SUPER_3B", "SUPER_3A_unloc_1", "scaffold_12", "H_3", "IIII", "x-1.2",
]

PREFIXES = ["", "SUPER_", "RL_", "chr", "a", "x-", "s.", "CHRI_", "HAP1_scaffold_", "V", "_"]
SUFFIXES = ["", "A", "B", "_unloc_1", "_x", ".1", "-a", "L", "X"]


class _N:
    __slots__ = ("name", "rank")

    def __init__(self, name, rank=0):
        self.name = name
        self.rank = rank


def key(name):
    return Assembly.name_natural_key(_N(name))


def names_upto(alpha, n):
    for ln in range(1, n + 1):
        for t in itertools.product(alpha, repeat=ln):
            yield "".join(t)


def cmp(a, b):
    lt = a < b
    gt = b < a
    eq = a == b
    return lt, gt, eq


class C20(Check):
    pid = "C20"
    level_text = (
        "Bounded exhaustive: all names <=6 (7) over two alphabets, all pairs <=4 (5), all permutations of k-subsets of a pool with a re-sort after renaming, parametric families for the stated order facts."
    )
    technique = (
        "exhaustive scope enumeration on the real sort key / sort methods: all names "
        "<= n over a 7-letter alphabet, all pairs, all permutations of k-subsets, "
        "parametric order families"
    )
    rule = (
        "cases: (names) every name of length<=Ln over alphabets 'IVXa10_' and 'IV2-.b' -> key must not raise; "
        "(pairs) every ordered pair of names of length<=Lp -> keys comparable, trichotomy; "
        "(perm) every permutation of every k-subset of a 20-name pool through scaffolds_sorted_by_name and "
        "smart_sort_scaffolds -> same key sequence; (facts) numeric / roman / unloc / rank families. "
        "non-trivial = case whose key contains a number token (digits or roman numeral), counted per distinct case"
        " After sorting, scaffolds are renamed in place and the same object sorted again; ranks 0-4."
    )
    assumptions = [
        "names outside the enumerated alphabets/lengths are covered only by the listed families",
        "order facts asserted are only those the statement makes (nothing about 'X' vs 'X1', or V)",
    ]
    hang_is_violation = True

    def bounds(self, tier):
        return {
            "name_len": 6 if tier == "quick" else 7,
            "pair_len": 4 if tier == "quick" else 5,
            "subset_k": 4 if tier == "quick" else 5,
            "family_n": 30 if tier == "quick" else 120,
        }

    def shards(self, tier):
        b = self.bounds(tier)
        out = []
        for alpha in (ALPHA1, ALPHA2):
            for first in alpha:
                out.append(("names", alpha, first, b["name_len"]))
        for alpha in (ALPHA1, ALPHA2):
            for r in range(16):
                out.append(("pairs", alpha, r, b["pair_len"]))
        for r in range(16):
            out.append(("perm", r, b["subset_k"]))
        for i in range(len(PREFIXES)):
            out.append(("facts", i, b["family_n"]))
        out.append(("rank", 0, 0))
        return out

    # -- individual oracles ------------------------------------------------
    def case_name(self, name, ctx):
        ctx.cur = ["name", name]
        ctx.evaluations += 1
        try:
            k = key(name)
        except Exception as e:  # noqa: BLE001
            ctx.violation(f"key-raises:{type(e).__name__}", ["name", name], f"name_natural_key({name!r}) raised {e!r}")
            return None
        if len(k) > 1:
            ctx.nontrivial += 1
        ctx.outcome(h64(k))
        return k

    def case_pair(self, a, b, ctx, ka=None, kb=None):
        ctx.cur = ["pair", a, b]
        ctx.evaluations += 1
        try:
            ka = key(a) if ka is None else ka
            kb = key(b) if kb is None else kb
            lt, gt, eq = cmp(ka, kb)
        except Exception as e:  # noqa: BLE001
            ctx.violation(f"compare-raises:{type(e).__name__}", ["pair", a, b], f"comparing keys of {a!r},{b!r}: {e!r}")
            return
        if (lt + gt + eq) != 1:
            ctx.violation("trichotomy", ["pair", a, b], f"{ka!r} vs {kb!r}: lt={lt} gt={gt} eq={eq}")
        if len(ka) > 1 or len(kb) > 1:
            ctx.nontrivial += 1

    def case_perm(self, names, ranks, ctx):
        """all permutations of `names` through both sort methods"""
        case = ["perm", list(names), list(ranks)]
        ctx.cur = case
        ref = None
        for perm in itertools.permutations(range(len(names))):
            ctx.evaluations += 1
            # rank "D": the scaffold is created without a rank argument (the class default)
            asm = Assembly("t", scaffolds=[Scaffold(names[i]) if ranks[i] == "D" else Scaffold(names[i], rank=ranks[i]) for i in perm])
            try:
                by_name = [s.name for s in asm.scaffolds_sorted_by_name()]
                asm.smart_sort_scaffolds()
                smart = [(s.rank if s.rank is not None else -1, s.name) for s in asm.scaffolds]
                kn = [key(n) for n in by_name]
                ks = [(r, key(n)) for r, n in smart]
            except Exception as e:  # noqa: BLE001
                ctx.violation(f"sort-raises:{type(e).__name__}", case, f"sorting {names!r}: {e!r}")
                return
            if sorted(by_name) != sorted(names) or sorted(n for _, n in smart) != sorted(names):
                ctx.violation("sort-loses-names", case, f"{by_name!r} / {smart!r}")
            if any(kn[i] > kn[i + 1] for i in range(len(kn) - 1)):
                ctx.violation("sort-not-ordered", case, f"by_name={by_name!r}")
            if any(ks[i] > ks[i + 1] for i in range(len(ks) - 1)):
                ctx.violation("smart-sort-not-ordered", case, f"smart={smart!r}")
            if any(smart[i][0] > smart[i + 1][0] for i in range(len(smart) - 1)):
                ctx.violation("rank-not-first", case, f"smart={smart!r}")
            # history: asking for the by-name list afterwards must leave the assembly's own (rank first) order alone
            try:
                before = [id(s) for s in asm.scaffolds]
                asm.scaffolds_sorted_by_name()
                if [id(s) for s in asm.scaffolds] != before:
                    ctx.violation("by-name-list-reorders-the-assembly", case, f"after smart sort {smart!r}, scaffolds_sorted_by_name() left {[(s.rank, s.name) for s in asm.scaffolds]!r}")
            except Exception as e:  # noqa: BLE001
                ctx.violation(f"sort-raises:{type(e).__name__}", case, f"by-name list after smart sort: {e!r}")
                return
            obs = (kn, ks)
            if ref is None:
                ref = obs
            elif obs != ref:
                ctx.violation("order-depends-on-initial-order", case, f"{obs!r} != {ref!r}")
            # history: rename in place (as the chromosome namer does) and sort the same object again
            try:
                olds = [s.name for s in asm.scaffolds]
                for s, new in zip(asm.scaffolds, olds[1:] + olds[:1]):
                    s.name = new
                again = [s.name for s in asm.scaffolds_sorted_by_name()]
                ka = [key(n) for n in again]
                asm.smart_sort_scaffolds()
                again2 = [(s.rank if s.rank is not None else -1, key(s.name)) for s in asm.scaffolds]
            except Exception as e:  # noqa: BLE001
                ctx.violation(f"sort-raises:{type(e).__name__}", case, f"re-sorting after rename: {e!r}")
                return
            if sorted(again) != sorted(names) or any(ka[i] > ka[i + 1] for i in range(len(ka) - 1)):
                ctx.violation("resort-after-rename-not-ordered", case, f"{again!r}")
            if any(again2[i] > again2[i + 1] for i in range(len(again2) - 1)):
                ctx.violation("smart-resort-after-rename-not-ordered", case, f"{again2!r}")
        ctx.nontrivial += 1
        ctx.outcome(h64(ref))

    def expect_before(self, a, b, why, ctx):
        """a must sort strictly before b through the real sort"""
        case = ["before", a, b, why]
        ctx.cur = case
        ctx.evaluations += 1
        ctx.nontrivial += 1
        try:
            for init in ((a, b), (b, a)):
                asm = Assembly("t", scaffolds=[Scaffold(n) for n in init])
                got = [s.name for s in asm.scaffolds_sorted_by_name()]
                asm.smart_sort_scaffolds()
                got2 = [s.name for s in asm.scaffolds]
                if got != [a, b] or got2 != [a, b]:
                    ctx.violation(f"order-fact:{why}", case, f"expected {a!r} before {b!r}; got {got!r} / {got2!r}")
                    return
        except Exception as e:  # noqa: BLE001
            ctx.violation(f"sort-raises:{type(e).__name__}", case, f"sorting {a!r},{b!r}: {e!r}")

    def expect_equal_key(self, a, b, ctx):
        case = ["equal", a, b]
        ctx.cur = case
        ctx.evaluations += 1
        try:
            if key(a) != key(b):
                ctx.violation("order-fact:leading-zero-equal", case, f"{key(a)!r} != {key(b)!r}")
        except Exception as e:  # noqa: BLE001
            ctx.violation(f"key-raises:{type(e).__name__}", case, repr(e))

    # -- shards -------------------------------------------------------------
    def run_shard(self, shard, ctx):
        kind = shard[0]
        if kind == "names":
            _, alpha, first, ln = shard
            self.case_name(first, ctx)
            for rest in names_upto(alpha, ln - 1):
                self.case_name(first + rest, ctx)
            ctx.sample({"kind": "name", "name": first + alpha[-1] * (ln - 1)})
        elif kind == "pairs":
            _, alpha, r, ln = shard
            names = list(names_upto(alpha, ln))
            keys = []
            for n in names:
                try:
                    keys.append(key(n))
                except Exception:  # noqa: BLE001
                    keys.append(None)  # reported by the names shards
            for i in range(r, len(names), 16):
                if keys[i] is None:
                    continue
                a, ka = names[i], keys[i]
                for j, b in enumerate(names):
                    if keys[j] is not None:
                        self.case_pair(a, b, ctx, ka, keys[j])
            ctx.sample({"kind": "pair", "a": names[r], "b": names[-1]})
        elif kind == "perm":
            _, r, k = shard
            for n, sub in enumerate(itertools.combinations(POOL, k)):
                if n % 16 != r:
                    continue
                self.case_perm(sub, [0] * k, ctx)
            ctx.sample({"kind": "perm", "subset": POOL[:k]})
        elif kind == "facts":
            _, i, nmax = shard
            self.facts(PREFIXES[i], nmax, ctx)
        elif kind == "rank":
            names = ["SUPER_2", "SUPER_10", "X", "scaffold_3", "A"]
            for sub in itertools.combinations(names, 3):
                for ranks in itertools.product(("D", 0, 1, 2, 3, 4), repeat=3):
                    self.case_perm(sub, ranks, ctx)
            # rank beats name: a rank-1 scaffold always precedes a rank-2/3 one
            for a, b in itertools.permutations(POOL, 2):
                for ra, rb in ((1, 2), (1, 3), (2, 3), (0, 1), (0, 3), (3, 4), (0, 4), (2, 4)):
                    case = ["rankpair", a, ra, b, rb]
                    ctx.cur = case
                    ctx.evaluations += 1
                    ctx.nontrivial += 1
                    try:
                        for init in ((a, ra, b, rb), (b, rb, a, ra)):
                            asm = Assembly("t", scaffolds=[Scaffold(init[0], rank=init[1]), Scaffold(init[2], rank=init[3])])
                            asm.smart_sort_scaffolds()
                            if [s.name for s in asm.scaffolds] != [a, b]:
                                ctx.violation("rank-not-first", case, f"{[(s.rank, s.name) for s in asm.scaffolds]!r}")
                                break
                    except Exception as e:  # noqa: BLE001
                        ctx.violation(f"sort-raises:{type(e).__name__}", case, repr(e))
            ctx.sample({"kind": "rank", "names": names})

    def facts(self, pre, nmax, ctx):
        digit_free_end = not (pre and pre[-1].isdigit())
        assert digit_free_end
        for suf in SUFFIXES:
            # (a) decimal numbers by value
            for n in range(0, nmax + 1):
                for m in range(n + 1, nmax + 1):
                    self.expect_before(f"{pre}{n}{suf}", f"{pre}{m}{suf}", "numeric", ctx)
                self.expect_equal_key(f"{pre}{n}{suf}", f"{pre}0{n}{suf}", ctx)
                self.expect_equal_key(f"{pre}{n}{suf}", f"{pre}00{n}{suf}", ctx)
            # digit runs of every length up to 20: 9...9 before 10...0
            for d in range(1, 21):
                self.expect_before(f"{pre}{'9' * d}{suf}", f"{pre}1{'0' * d}{suf}", "numeric", ctx)
                self.expect_before(f"{pre}2{'0' * d}{suf}", f"{pre}10{'0' * d}{suf}", "numeric", ctx)
            # numbers with leading zeros still by value
            for n, m in ((2, 10), (9, 10), (1, 2), (99, 100)):
                self.expect_before(f"{pre}0{n}{suf}", f"{pre}{m}{suf}", "numeric", ctx)
                self.expect_before(f"{pre}{n}{suf}", f"{pre}0{m}{suf}", "numeric", ctx)
        # (b) roman numerals by value - the numeral must be delimited: the text
        # before it must not end in I and the text after must not start with I/V
        if not pre.endswith("I"):
            for suf in ("", "_unloc_1", "_x", ".1", "A"):
                rom = ["I", "II", "III", "IV"]
                for i in range(4):
                    for j in range(i + 1, 4):
                        self.expect_before(f"{pre}{rom[i]}{suf}", f"{pre}{rom[j]}{suf}", "roman", ctx)
        # numerals directly followed by a digit run: by numeral value first, then by the number
        if not pre.endswith("I") and not (pre and pre[-1].isdigit()):
            chain = [f"{pre}I2", f"{pre}I10", f"{pre}II1", f"{pre}II12", f"{pre}III", f"{pre}III0", f"{pre}IV3"]
            for i in range(len(chain)):
                for j in range(i + 1, len(chain)):
                    self.expect_before(chain[i], chain[j], "roman-then-number", ctx)
        # (c) unloc directly after its chromosome, before the next one
        for letter in ("", "A", "B"):
            for n in range(1, min(nmax, 30) + 1):
                chrom = f"{pre}{n}{letter}"
                nxt = f"{pre}{n + 1}{letter}"
                nxts = [nxt]
                if letter == "A":
                    nxts.append(f"{pre}{n}B")
                prev_u = chrom
                for k in (1, 2, 9, 10, 11):
                    u = f"{chrom}_unloc_{k}"
                    self.expect_before(prev_u, u, "unloc-after-chromosome", ctx)
                    for nx in nxts:
                        self.expect_before(u, nx, "unloc-before-next", ctx)
                    prev_u = u
        if not pre.endswith("I"):
            rom = ["I", "II", "III", "IV"]
            for i in range(3):
                for k in (1, 2, 10):
                    u = f"{pre}{rom[i]}_unloc_{k}"
                    self.expect_before(f"{pre}{rom[i]}", u, "unloc-after-chromosome", ctx)
                    self.expect_before(u, f"{pre}{rom[i + 1]}", "unloc-before-next", ctx)
        ctx.sample({"kind": "facts", "prefix": pre})

    def replay(self, case, ctx):
        kind = case[0]
        if kind == "name":
            self.case_name(case[1], ctx)
        elif kind == "pair":
            self.case_pair(case[1], case[2], ctx)
        elif kind == "perm":
            self.case_perm(tuple(case[1]), tuple(case[2]), ctx)
        elif kind == "before":
            self.expect_before(case[1], case[2], case[3], ctx)
        elif kind == "equal":
            self.expect_equal_key(case[1], case[2], ctx)
        elif kind == "rankpair":
            _, a, ra, b, rb = case
            asm = Assembly("t", scaffolds=[Scaffold(b, rank=rb), Scaffold(a, rank=ra)])
            asm.smart_sort_scaffolds()
            if [s.name for s in asm.scaffolds] != [a, b]:
                ctx.violation("rank-not-first", case, f"{[(s.rank, s.name) for s in asm.scaffolds]!r}")


CHECK = C20()
# scope added in later rounds, kept in the evidence text
CHECK.rule += ' Scaffolds created without a rank argument (class default). Digit runs of 1..21 digits (9..9 before 10..0). After the smart sort, asking for the by-name list must not reorder the assembly.'
