"""
C06 - every AGP the tools write is coordinate-valid.

E1, piggy-backed on three hosts: an independent validator is run on every AGP
text produced by (a) format_agp / asm-format over the C05 assembly scope,
(b) every assembly returned by remapping over a C01 sub-scope (objects and a
CLI slice with FASTA output), (c) the .agp cache text for every file of a C04
sub-scope (record lengths known by construction).
"""

import io
import itertools
import math

from mc import agpcheck, pv
from mc import fastamodel as fm
from mc.checks import c01, c04, c05
from mc.engine import Check, h64
from tola.assembly.format import format_agp
from tola.fasta.index import index_fasta_file


class C06(Check):
    pid = "C06"
    level_text = (
        "Independent line-level AGP validator applied to every AGP text produced while three host scopes are enumerated exhaustively (format_agp scope, remap outputs, FASTA-derived caches, FASTA+AGP pairs)."
    )
    technique = (
        "independent AGP arithmetic validator applied to every AGP text produced while exhaustively enumerating three host scopes "
        "(C05 assemblies, C01 remap outputs, C04 FASTA-derived caches)"
    )
    rule = (
        "(a) every assembly of the C05 scope (1-2 rows over 105 rows; 3 rows over 8; 2-3 scaffolds incl. repeated names; scaffolds beginning "
        "with a gap) through format_agp; (b) every output assembly of the C01 PretextView sub-scope (bpt 2.5 and 1, <=3 pieces) and tagged "
        "sub-scope through format_agp, and pretext-to-asm -o x.fa files for a slice with FASTA record lengths; (c) the .agp text for every FASTA "
        "of the C04 single-record scope (length<=Ls over {A,n,g}) x buffers, object end == record length by construction. Validator: rows tile "
        "from 1, part numbers 1.., W span == component span, gap span == stated length, U/yes/type, last end == Scaffold.length / record length. "
        "non-trivial = AGP text with at least two rows in one object"
        " Further hosts: FASTA + AGP written from one assembly object over the C03 row scope at buffers {1,2,3,4,11} (record length == AGP end); FASTA files whose second record repeats the first name (refused, or the cache AGP must still be valid)."
    )
    assumptions = ["validator is an independent line parser (mc/agpcheck.py); gap evidence column only required non-empty"]
    shard_timeout = {"quick": 600, "thorough": 3600}

    def bounds(self, tier):
        return {"c05_rows": 2, "c05_reduced_rows": 3 if tier == "quick" else 4, "c04_single_len": 6 if tier == "quick" else 8, "remap_bpt": [2.5, 1.0]}

    def shards(self, tier):
        out = [("c05", i) for i in range(len(c05.FULL))]
        out += [("c05r", i, self.bounds(tier)["c05_reduced_rows"]) for i in range(len(c05.REDUCED))]
        out += [("c05n", i) for i in range(len(c05.NAMES))]
        for bpt in (2.5, 1.0):
            for c in range(12):
                out.append(("remap", bpt, c, 12, tier))
            for c in range(4):
                out.append(("tags", bpt, c, 4, tier))
        for first in range(3):
            for eol in ("LF", "CRLF"):
                out.append(("fasta", first, eol, self.bounds(tier)["c04_single_len"]))
        from mc.checks import c03_cli

        out += [("cli", *s[1:]) for s in c03_cli.shards(tier)]
        for buf in (1, 2, 3, 4, 11):
            out.append(("pair", buf))
        for buf in (2, 11):
            for eol in ("LF+blank", "CRLF", "LF-nofinal"):
                out.append(("pair", buf, eol))
            # no final newline and a last record whose length is a multiple of the line width (7 residues: widths 1, 7)
            for w in (1, 7):
                for eol in ("LF-nofinal", "CRLF-nofinal"):
                    out.append(("pair", buf, eol, w))
        return out

    def host_pair(self, buf, ctx, eol="LF", w=4):
        """FASTA + AGP written from one assembly object (what pretext-to-asm does for -o x.fa): record length == AGP object end"""
        from mc.checks import c03
        from tola.assembly.assembly import Assembly
        from tola.fasta.stream import FastaStream

        fi = c03.CHECK.make_index(w, eol, buf)
        rows = [r for r in c03.all_rows(c03.BUFFERS) if not (r[0] == "G" and r[1] == 0)]  # AGP cannot express a 0-length gap
        for r1 in rows:
            for r2 in [None, *rows]:
                rr = [r1] if r2 is None else [r1, r2]
                case = ["pair", buf, [list(r) for r in rr]] + ([eol] if eol != "LF" or w != 4 else []) + ([w] if w != 4 else [])
                ctx.cur = case
                ctx.evaluations += 1
                ctx.nontrivial += 1
                asm = Assembly("x", scaffolds=[fm.build_scaffold("s1", rr)])
                out = io.BytesIO()
                FastaStream(out, fi).write_assembly(asm)
                reclen = sum(len(ln) for ln in out.getvalue().split(b"\n")[1:])
                agp = io.StringIO()
                format_agp(asm, agp)
                for klass, detail in agpcheck.validate_agp(agp.getvalue(), {"s1": reclen})[:2]:
                    ctx.violation(klass + "/fasta-record-length", case, detail)
        ctx.sample({"host": "FASTA+AGP pair", "buffer": buf})

    # ------------------------------------------------------------------
    def validate_asm(self, asm, case, ctx, expect_extra=None, names_must_be_unique=False):
        out = io.StringIO()
        format_agp(asm, out)
        text = out.getvalue()
        lengths = {}
        by_name = {}
        for sc in asm.scaffolds:
            by_name.setdefault(sc.name, []).append(sc)
            lengths[sc.name] = sum(r.length for r in sc.rows)
        dups = {n: lst for n, lst in by_name.items() if len(lst) > 1}
        ctx.evaluations += 1
        if any(len(sc.rows) > 1 for sc in asm.scaffolds):
            ctx.nontrivial += 1
        if dups and names_must_be_unique:
            # two objects under one name cannot be told apart in the file: the
            # object no longer tiles from 1.  Classified by what distinguishes
            # the scaffolds, then each scaffold is validated on its own.
            for n, lst in dups.items():
                tags = {sc.tag for sc in lst}
                haps = {sc.haplotype for sc in lst}
                if len(tags) == 1 and len(haps) > 1:
                    why = "same-tag-different-haplotype"
                elif len(tags) > 1:
                    why = "different-tag"
                else:
                    why = "other"
                ctx.violation(f"duplicate-object-name/{why}", case, f"assembly has {len(lst)} scaffolds named {n!r}: tags {tags!r} haplotypes {haps!r}")
            from tola.assembly.assembly import Assembly

            for sc in asm.scaffolds:
                single = Assembly("one", scaffolds=[sc])
                o2 = io.StringIO()
                format_agp(single, o2)
                for klass, detail in agpcheck.validate_agp(o2.getvalue(), {sc.name: lengths[sc.name]} if len(by_name[sc.name]) == 1 else None)[:3]:
                    ctx.violation(klass, case, detail)
            return
        errs = agpcheck.validate_agp(text, None if dups else lengths, [sc.name for sc in asm.scaffolds if sc.rows])
        if expect_extra:
            errs += agpcheck.validate_agp(text, expect_extra)
        for klass, detail in errs[:3]:
            ctx.violation(klass, case, detail)
        ctx.outcome(h64(text))

    def host_c05(self, spec, headers, ctx):
        case = ["c05", [[n, [list(r) for r in rows]] for n, rows in spec], list(headers)]
        ctx.cur = case
        self.validate_asm(c05.build(spec, headers), case, ctx)

    def host_remap(self, inp, pvspec, ctx, kind="remap"):
        case = ["remap", pv.jsonable(inp), pv.jsonable(pvspec)]
        ctx.cur = case
        try:
            _ba, out, _ = pv.remap(inp, pvspec)
        except Exception as e:  # noqa: BLE001
            ctx.count("raised_" + type(e).__name__)
            return
        for key, asm in out.items():
            self.validate_asm(asm, case + [str(key)], ctx, names_must_be_unique=True)

    def host_fasta(self, seq, w, eol, fnl, buf, ctx):
        eolb = b"\r\n" if eol == "CRLF" else b"\n"
        recs = [("r1", seq, w), ("r2", seq[::-1] + b"A", 2)]
        data, _ = fm.make_fasta(recs, eolb, fnl)
        case = ["fasta", seq.decode(), w, eol, fnl, buf]
        ctx.cur = case
        try:
            _idx, asm = index_fasta_file(fm.MemPath(data), buf)
        except Exception as e:  # noqa: BLE001
            ctx.violation(f"index-raises:{type(e).__name__}", case, repr(e))
            return
        self.validate_asm(asm, case, ctx, expect_extra={n: len(s) for n, s, _ in recs})
        # the same records with the second one named like the first: either refused, or the cache AGP must still be valid
        recs2 = [("r1", seq, w), ("r1", seq[::-1] + b"A", 2), ("r3", b"AC", 2)]
        data2, _ = fm.make_fasta(recs2, eolb, fnl)
        case2 = ["fasta-dup", seq.decode(), w, eol, fnl, buf]
        ctx.cur = case2
        try:
            _idx2, asm2 = index_fasta_file(fm.MemPath(data2), buf)
        except Exception:  # noqa: BLE001
            ctx.count("duplicate_names_refused")
        else:
            self.validate_asm(asm2, case2, ctx, names_must_be_unique=True)

    def run_shard(self, shard, ctx):
        kind = shard[0]
        if kind == "c05":
            r1 = c05.FULL[shard[1]]
            self.host_c05([("s1", [r1])], (), ctx)
            for r2 in c05.FULL:
                self.host_c05([("s1", [r1, r2])], (), ctx)
            ctx.sample({"host": "C05 scope", "scaffold": [list(r1), list(c05.FULL[-1])]})
        elif kind == "c05r":
            _, i, ln = shard
            for k in range(1, ln):
                for tail in itertools.product(c05.REDUCED, repeat=k):
                    self.host_c05([("s1", [c05.REDUCED[i], *tail])], c05.HEADERS[1], ctx)
        elif kind == "c05n":
            n1 = c05.NAMES[shard[1]]
            short = [list(t) for k in (1, 2) for t in itertools.product(c05.REDUCED, repeat=k)]
            for n2 in c05.NAMES:
                if n2 == n1:
                    continue
                for rows1 in short:
                    for rows2 in short[: len(c05.REDUCED)]:
                        self.host_c05([(n1, rows1), (n2, rows2)], (), ctx)
                        self.host_c05([(n1, rows2), (n2, rows1), (n1, rows2)], (), ctx)
        elif kind in ("remap", "tags"):
            chk = c01.CHECK
            saved = chk.run_case
            try:
                chk.run_case = lambda inp, pvspec, c, k: self.host_remap(inp, pvspec, c)
                _, bpt, c, n, tier = shard
                if kind == "remap":
                    # quick tier of the C01 scope, every other input
                    chk.scope_a(bpt, c, n * 2 if tier == "quick" else n, "quick", ctx)
                else:
                    chk.scope_tags(bpt, c, n * (4 if tier == "quick" else 1), "quick", ctx)
            finally:
                chk.run_case = saved
            ctx.sample({"host": "C01 remap scope", "bpt": shard[1]})
        elif kind == "fasta":
            _, first, eol, ln = shard
            for rest in itertools.chain([b""], c04.seqs_upto(ln - 1)):
                seq = c04.SYMS[first : first + 1] + rest
                for w in (1, 3, 5):
                    for fnl in (True, False):
                        for buf in (1, 2, 100):
                            self.host_fasta(seq, w, eol, fnl, buf, ctx)
            ctx.sample({"host": "C04 scope", "record": "nnAgn", "eol": eol})
        elif kind == "cli":
            from mc.checks import c03_cli

            c03_cli.run_shard(self, ("cli", *shard[1:]), ctx, validate_only=True)
        elif kind == "pair":
            self.host_pair(shard[1], ctx, *(shard[2:4]))

    def replay(self, case, ctx):
        kind = case[0]
        if kind == "c05":
            spec = [(n, [tuple(tuple(x) if isinstance(x, list) else x for x in r) for r in rows]) for n, rows in case[1]]
            self.host_c05(spec, tuple(case[2]), ctx)
        elif kind == "remap":
            self.host_remap(pv.tuplify(case[1]), (case[2][0], pv.tuplify(case[2][1])), ctx)
        elif kind in ("fasta", "fasta-dup"):
            _, seq, w, eol, fnl, buf = case
            self.host_fasta(seq.encode(), w, eol, fnl, buf, ctx)
        elif kind == "cli":
            from mc.checks import c03_cli

            c03_cli.replay(self, case, ctx)
        elif kind == "pair":
            self.host_pair(case[1], ctx, *(case[3:5]))


CHECK = C06()
# scope added in later rounds, kept in the evidence text
CHECK.rule += " CLI slice: every sixth case also with a stale cache whose mtime equals the rewritten FASTA's."
CHECK.rule += ' FASTA+AGP pair host also on inputs with an empty line between records, CRLF, and no final newline.'
