"""
C12 - overlap lookup equals a brute-force scan of the scaffold.

E1: every scaffold of <= K rows over a 5-row alphabet x every query interval
[a,b], 1 <= a <= b <= L+2, through the real IndexedAssembly.find_overlaps,
compared with a linear scan.
"""

import itertools

from mc.engine import Check
from tola.assembly.fragment import Fragment
from tola.assembly.gap import Gap
from tola.assembly.indexed_assembly import IndexedAssembly
from tola.assembly.scaffold import Scaffold

# row alphabet: (kind, length, strand)
ALPHA = [("F", 1, 1), ("F", 2, 1), ("F", 3, -1), ("G", 1, 0), ("G", 2, 0)]


# scaffolds of 19..31 rows (a lookup that treats near and far neighbours differently needs many rows)
MANYROWS = [
    [ALPHA[i % 2] if j % 2 == 0 else ALPHA[3] for j, i in enumerate(range(25))],
    [ALPHA[1]] * 19,
    [ALPHA[0], ALPHA[1], ALPHA[2]] * 9,
    [ALPHA[1], ALPHA[3], ALPHA[4]] * 8 + [ALPHA[0]],
    [ALPHA[4]] + [ALPHA[0]] * 10 + [ALPHA[3]] + [ALPHA[2]] * 10 + [ALPHA[4], ALPHA[3]] + [ALPHA[1]] * 7,
]


def build(rows_spec, name="s", frag_name=None):
    rows = []
    for i, (kind, ln, strand) in enumerate(rows_spec):
        if kind == "F":
            rows.append(Fragment(frag_name or f"c{i}", 5, 4 + ln, strand))
        else:
            rows.append(Gap(ln, "scaffold" if ln == 1 else "contig"))
    return Scaffold(name, rows)


def brute(scffld, a, b):
    """(first_idx, last_idx, start, end) or None"""
    pos = 0
    hits = []
    for i, row in enumerate(scffld.rows):
        s, e = pos + 1, pos + row.length
        pos = e
        if s <= b and e >= a:
            hits.append((i, s, e))
    while hits and isinstance(scffld.rows[hits[0][0]], Gap):
        hits.pop(0)
    while hits and isinstance(scffld.rows[hits[-1][0]], Gap):
        hits.pop()
    if not hits:
        return None
    return hits[0][0], hits[-1][0], hits[0][1], hits[-1][2]


class C12(Check):
    pid = "C12"
    level_text = (
        "Bounded exhaustive: every scaffold of <=6 (8) rows x every query, on one object per query order; brute-force scan as reference; termination by watchdog."
    )
    technique = (
        "exhaustive scope enumeration on the real find_overlaps: all scaffolds <= K rows "
        "over a 5-row alphabet x all query intervals, brute-force scan as reference model"
    )
    rule = (
        "case = (scaffold rows, query a..b); scaffolds: every sequence of 1..K rows over {F1,F2,F3(-),G1,G2} "
        "(gaps first/last/consecutive, 1-bp rows, single rows all occur), alone and as second scaffold of a "
        "two-scaffold assembly; queries: every 1<=a<=b<=L+2. Oracle: identity of returned row objects, start/end, "
        "None iff no contig row is hit, no exception, termination (watchdog). non-trivial = query hits at least "
        "one gap row or ends past the scaffold end"
        " All queries of a scaffold run on one object in ascending and in descending order; after every hit the result is edited and the same lookup repeated."
    )
    assumptions = ["row lengths 1..3 and <= K rows; longer rows only shift coordinates"]
    hang_is_violation = True
    shard_timeout = {"quick": 120, "thorough": 1800}

    def bounds(self, tier):
        return {"max_rows": 6 if tier == "quick" else 8, "alphabet": ["F1", "F2", "F3-", "G1", "G2"], "query_past_end": 2}

    def shards(self, tier):
        k = self.bounds(tier)["max_rows"]
        out = [("one", i, k) for i in range(5)] + [("huge",)] + [("manyrows", i) for i in range(len(MANYROWS))]
        if tier == "quick":
            out += [("pre", i, j, k) for i in range(5) for j in range(5)]
        else:
            out += [("short", i, j, k) for i in range(5) for j in range(5)]
            out += [("pre3", i, j, l, k) for i in range(5) for j in range(5) for l in range(5)]
        return out

    def check_scaffold(self, spec, ctx, two=False, orders=("asc", "desc", "asc-after-refused-add", "asc-after-other-assembly", "asc-added-after-first-lookup", "asc-fragments-named-after-scaffold")):
        """
        every query on ONE IndexedAssembly object per order (ascending and descending), so a lookup
        that depends on earlier lookups on the same object shows up as well
        """
        for order in orders:
            # (one order with every fragment named after the scaffold itself: pieces of a sequence that kept its name)
            scffld = build(spec, frag_name="s" if order == "asc-fragments-named-after-scaffold" else None)
            scaffolds = [scffld]
            if two:
                scaffolds = [build([ALPHA[0], ALPHA[4], ALPHA[1]], name="other"), scffld]
            if order == "asc-added-after-first-lookup":
                # history: the assembly answers a lookup first, the scaffold under test is added afterwards
                ia = IndexedAssembly("t", scaffolds=[build([ALPHA[0], ALPHA[4], ALPHA[1]], name="other")])
                ia.find_overlaps(Fragment("other", 1, 2, 1))
                for s in scaffolds:
                    if s.name != "other":
                        ia.add_scaffold(s)
            else:
                ia = IndexedAssembly("t", scaffolds=scaffolds)
            if order == "asc-after-refused-add":
                # history: a different scaffold with the same name is offered and refused; the one held must stay usable
                try:
                    ia.add_scaffold(build([ALPHA[1], ALPHA[3], ALPHA[3], ALPHA[2], ALPHA[0]], name=scffld.name))
                except ValueError:
                    pass
                else:
                    ctx.count("duplicate_name_add_accepted")
                    continue
            if order == "asc-after-other-assembly":
                # history: a second IndexedAssembly with a shorter and a longer scaffold of the same names is built
                # afterwards; the first one must not notice
                self.other2 = IndexedAssembly("v", scaffolds=[build([ALPHA[2]] * 9, name=scffld.name)])
                self.other = IndexedAssembly("u", scaffolds=[build([ALPHA[0]], name=s.name) for s in scaffolds])
            ln = scffld.length
            has_gap = any(k == "G" for k, _, _ in spec)
            queries = [(a, b) for a in range(1, ln + 3) for b in range(a, ln + 3)]
            if order == "desc":
                queries.reverse()
            if order in ("asc-after-refused-add", "asc-after-other-assembly", "asc-added-after-first-lookup") and len(queries) > 40:
                queries = queries[:: len(queries) // 40]
            for a, b in queries:
                self.check_query(spec, scffld, ia, a, b, ctx, two, has_gap, order)

    def check_query(self, spec, scffld, ia, a, b, ctx, two, has_gap, order="asc"):
        case = [[list(r) for r in spec], a, b, two, order]
        ctx.cur = case
        ctx.evaluations += 1
        want = brute(scffld, a, b)
        if has_gap or b > scffld.length:
            ctx.nontrivial += 1
        try:
            got = ia.find_overlaps(Fragment("s", a, b, 1))
        except Exception as e:  # noqa: BLE001
            ctx.violation(f"raises:{type(e).__name__}", case, f"find_overlaps({a},{b}) on {spec!r} raised {e!r}; expected {want!r}")
            return
        if want is None:
            ctx.count("expect_none")
            if got is not None:
                ctx.violation("returned-rows-expected-none", case, f"got rows {got.rows!r}")
            return
        if got is None:
            ctx.violation("returned-none-expected-rows", case, f"expected rows {want!r}")
            return
        i, j, s, e = want
        exp_rows = scffld.rows[i : j + 1]
        if len(got.rows) != len(exp_rows) or any(x is not y for x, y in zip(got.rows, exp_rows)):
            ctx.violation("wrong-rows", case, f"got {got.rows!r} expected {exp_rows!r}")
        elif got.start != s or got.end != e:
            ctx.violation("wrong-span", case, f"got {got.start}-{got.end} expected {s}-{e}")
        ctx.outcome((tuple(map(tuple, spec)), a, b, i, j))
        # history: the caller edits the result it was given (as BuildAssembly does), then asks the same question again
        try:
            if len(got.rows) > 1:
                got.discard_end()
            else:
                got.rows[:] = []
            again = ia.find_overlaps(Fragment("s", a, b, 1))
        except Exception as e:  # noqa: BLE001
            ctx.violation(f"second-lookup-raises:{type(e).__name__}", case, repr(e))
            return
        if again is None or len(again.rows) != len(exp_rows) or any(x is not y for x, y in zip(again.rows, exp_rows)) or (again.start, again.end) != (s, e):
            ctx.violation("second-lookup-differs-after-result-was-edited", case, f"got {None if again is None else (again.rows, again.start, again.end)!r} expected {exp_rows!r} {s}-{e}")

    def check_huge(self, ctx):
        """row lengths around 2^31, 2^32 and 10^12: the index must hold them and the answers stay exact"""
        big = [2**31 - 1, 2**31, 2**32 - 1, 2**32, 2**32 + 1, 10**12]
        for ln1 in big:
            for ln2 in (1, 2**32, 10**12):
                rows = [Fragment("a", 1, ln1, 1), Gap(200, "scaffold"), Fragment("b", 5, 4 + ln2, -1), Gap(ln1, "contig"), Fragment("c", 1, 7, 1)]
                case = ["huge", ln1, ln2]
                ctx.cur = case
                try:
                    scffld = Scaffold("s", rows)
                    ia = IndexedAssembly("t", scaffolds=[scffld])
                except Exception as e:  # noqa: BLE001
                    ctx.evaluations += 1
                    ctx.violation(f"indexing-raises:{type(e).__name__}", case, repr(e))
                    continue
                total = scffld.length
                edges = [1, ln1, ln1 + 1, ln1 + 200, ln1 + 201, ln1 + 200 + ln2, ln1 + 201 + ln2, total - 7, total - 6, total, total + 1]
                for a in edges:
                    for b in edges:
                        if a <= b:
                            ctx.evaluations += 1
                            ctx.nontrivial += 1
                            want = brute(scffld, a, b)
                            try:
                                got = ia.find_overlaps(Fragment("s", a, b, 1))
                            except Exception as e:  # noqa: BLE001
                                ctx.violation(f"raises:{type(e).__name__}/huge", case + [a, b], repr(e))
                                continue
                            if (got is None) != (want is None):
                                ctx.violation("huge-coordinates-none-mismatch", case + [a, b], f"got {got!r} expected {want!r}")
                            elif got is not None:
                                i, j, s, e = want
                                if got.rows != scffld.rows[i : j + 1] or (got.start, got.end) != (s, e):
                                    ctx.violation("huge-coordinates-wrong-result", case + [a, b], f"got {got.start}-{got.end} rows {len(got.rows)} expected {s}-{e} rows {j - i + 1}")
        ctx.sample({"huge": "row lengths 2^31-1 .. 10^12, queries at every row edge"})

    def run_shard(self, shard, ctx):
        kind = shard[0]
        if kind == "huge":
            return self.check_huge(ctx)
        if kind == "manyrows":
            self.check_scaffold(MANYROWS[shard[1]], ctx, orders=("asc", "desc"))
            ctx.sample({"scaffold_rows": len(MANYROWS[shard[1]]), "queries": "all"})
            return
        if kind == "one":
            self.check_scaffold([ALPHA[shard[1]]], ctx)
            self.check_scaffold([ALPHA[shard[1]]], ctx, two=True)
            ctx.sample({"rows": [ALPHA[shard[1]]], "queries": "all"})
            return
        k = shard[-1]
        if kind == "short":
            pre = [ALPHA[shard[1]], ALPHA[shard[2]]]
            self.check_scaffold(pre, ctx)
            self.check_scaffold(pre, ctx, two=True)
            return
        pre = [ALPHA[x] for x in shard[1:-1]]
        for extra in range(0, k - len(pre) + 1):
            for tail in itertools.product(ALPHA, repeat=extra):
                spec = pre + list(tail)
                self.check_scaffold(spec, ctx)
                if len(spec) <= 3:
                    self.check_scaffold(spec, ctx, two=True)
        ctx.sample({"rows": pre + [ALPHA[3]] * (k - len(pre)), "queries": "all 1<=a<=b<=L+2"})

    def replay(self, case, ctx):
        # the whole query sequence of that scaffold is replayed in the recorded order on one object
        # (a lookup may depend on earlier lookups); only the recorded query is reported
        if case[0] == "huge":
            return self.check_huge(ctx)
        spec, a, b, two = case[:4]
        order = case[4] if len(case) > 4 else "asc"
        spec = [tuple(r) for r in spec]
        sub = type(ctx)(ctx.tier, ctx.seed)
        self.check_scaffold(spec, sub, two, orders=(order,))
        for klass, lst in sub.violations.items():
            for v in lst:
                if v["case"][1:3] == [a, b] or sub.violation_counts[klass] > len(lst):
                    ctx.violation(klass, v["case"], v["detail"])
        if not ctx.violation_count and sub.violation_count:
            k = next(iter(sub.violations))
            ctx.violation(k, sub.violations[k][0]["case"], sub.violations[k][0]["detail"])


CHECK = C12()
# scope added in later rounds, kept in the evidence text
CHECK.rule += ' Huge family: rows with coordinates around 2^32. A third query order after add_scaffold() was offered (and refused) a different scaffold with the same name; a sixth with every fragment named after its scaffold; a fifth on a scaffold added after the assembly answered its first lookup; a fourth after other IndexedAssembly objects with same-named scaffolds of other lengths were built. Five scaffolds of 19-31 rows, every query.'
