"""
C11 - curation statistics count the real cuts, breaks and joins.

E1: remapping scopes with forced reverse-strand contigs, 1-bp contigs,
head-to-head / tail-to-tail input junctions and whole-scaffold reversals.
Oracle: independent facing-end junction counter (an end is (contig, coordinate,
side), so 1-bp contigs keep two distinct ends).
"""

import itertools
import math

from mc import pv
from mc.checks import c01
from mc.engine import Check, h64

SEPS = [(), (("G", 2, "scaffold"),)]


def err_len(bpt):
    return 1 + math.floor(bpt)


def inputs_for(bpt, tier):
    e = err_len(bpt)
    full = tier == "thorough"
    lens2 = [1, e, 4 * e + 2]
    out = []
    for sc in pv.gen_scaffolds("tpf", "scaffold_1", 2, lens2, SEPS):
        out.append((sc,))
    lens3 = [1, 2 * e + 1] if not full else [1, e, 2 * e + 1]
    for sc in pv.gen_scaffolds("tpf", "scaffold_1", 3, lens3, SEPS if full else SEPS[:1]):
        if sum(1 for r in sc[1] if r[0] == "F") == 3:
            out.append((sc,))
    for sc in pv.gen_scaffolds("fasta", "scaffold_1", 3, lens3, SEPS[1:]):
        out.append((sc,))
    # contigs that are sub-ranges of one named sequence, every strand combination
    for sc in pv.gen_scaffolds("sub", "scaffold_1", 2, lens2, SEPS):
        out.append((sc,))
    for sc in pv.gen_scaffolds("sub", "scaffold_1", 3, [1, 2 * e + 1], SEPS[:1]):
        if sum(1 for r in sc[1] if r[0] == "F") == 3:
            out.append((sc,))
    firsts = list(pv.gen_scaffolds("tpf", "scaffold_1", 2, [1, 2 * e + 1], SEPS[:1]))
    seconds = list(pv.gen_scaffolds("tpf", "scaffold_2", 2, [1, e], SEPS[:1]))
    for a in firsts:
        for b in seconds:
            if sum(1 for r in a[1] if r[0] == "F") == 2 and (full or sum(1 for r in b[1] if r[0] == "F") == 2):
                out.append((a, b))
    # scaffolds that begin with a gap (a FASTA record with leading Ns), and two gap rows in a row
    for style in ("fasta", "tpf"):
        for lead, dbl in ((3, False), (0, True), (2, True)):
            rows = [("G", lead, "scaffold")] if lead else []
            pos = lead
            for i, ln in enumerate((2 * e + 1, e, 1)):
                if i:
                    seps_ = [("G", 2, "scaffold"), ("G", 3, "contig")] if (dbl and i == 1) else [("G", 2, "scaffold")]
                    rows.extend(seps_)
                    pos += sum(g[1] for g in seps_)
                rows.append(("F", f"scaffold_1.c{i + 1}", 1, ln, 1) if style == "tpf" else ("F", "scaffold_1", pos + 1, pos + ln, 1))
                pos += ln
            out.append((("scaffold_1", tuple(rows)),))
    # an input scaffold without any contig (an all-N FASTA record) between / before scaffolds that have junctions
    for style in ("fasta", "tpf"):
        a = ("scaffold_1", pv.scaffold_rows(style, "scaffold_1", (2 * e + 1, e), ((("G", 2, "scaffold"),),), (1, 1)))
        c = ("scaffold_3", pv.scaffold_rows(style, "scaffold_3", (e, 2 * e + 1, 1), ((("G", 2, "scaffold"),), (("G", 1, "scaffold"),)), (1, 1, 1)))
        for glen in (1, 2 * e):
            g = ("scaffold_2", (("G", glen, "scaffold"),))
            out.append((a, g, c))
            out.append((g, c))
    return out


def junction_set(scaffolds_rows):
    js = set()
    for rows in scaffolds_rows:
        for pair, _sep in pv.junctions(rows):
            js.add(pair)
    return js


class C11(Check):
    pid = "C11"
    level_text = (
        "Bounded exhaustive over remap scopes with reverse-strand, 1-bp and same-named contigs; independent facing-end junction counter; log line and info.yaml against the files written."
    )
    technique = (
        "exhaustive scope enumeration on the real BuildAssembly/AssemblyStats: PretextView scripts, tagged scripts and arbitrary bait "
        "multisets on inputs with reverse-strand and 1-bp contigs; independent facing-end junction counter as reference model"
    )
    rule = (
        "case = (input assembly, Pretext assembly) on which remapping completes. inputs: 2-3 contigs of lengths {1,E,2E+1,4E+2}, every strand "
        "combination (so head-to-head and tail-to-tail junctions occur), separators {none, gap 2}, one or two scaffolds, TPF and FASTA naming; "
        "scripts: all cut sets (window E+2), <=3 pieces, floor/ceil, all permutations x orientation patterns x groupings (whole-scaffold "
        "reversals included), painted {none, all}; the tagged scope and the bait-multiset scope of C01. Oracle: cuts == #output fragments - "
        "#input contigs; breaks == |J_in - J_out|, joins == |J_out - J_in| with J = set of unordered facing-end pairs of consecutive "
        "fragments; Haplotig assembly size == number of Haplotig-tagged pieces that survive. non-trivial = completed case with cuts, breaks or joins > 0 "
        "or with a reverse-strand fragment in the output"
        " The fused assemblies are requested a second time and the numbers re-checked; CLI: log line and info.yaml (totals and haplotig removals) against the files written, incl. a two-haplotype family with joined contaminants."
    )
    assumptions = ["strand-0 contigs are outside the scope (statistics are undefined for them: the code raises)"]
    shard_timeout = {"quick": 600, "thorough": 5400}

    def bpts(self, tier):
        return [1.0, 2.5] if tier == "quick" else [1.0, 2.5, 4.0]

    def bounds(self, tier):
        return {"bpt": self.bpts(tier), "max_pieces": 3, "bait_multiset_size": 3}

    def shards(self, tier):
        out = []
        chunks = 16 if tier == "quick" else 48
        for bpt in self.bpts(tier):
            for c in range(chunks):
                out.append(("pv", bpt, c, chunks, tier))
            for c in range(8):
                out.append(("tags", bpt, c, 8, tier))
        for bpt in (1.0, 2.5):
            for i in range(5):
                for variant in (0, 1):
                    out.append(("baits", bpt, i, variant, tier))
        from mc.checks import c03_cli

        out += c03_cli.shards(tier)
        return out

    def cli_extra(self, case, files, pvspec, ctx):
        """numbers in the log line and info.yaml against the reference counter applied to the files written"""
        from mc.checks import c03_cli

        got = c03_cli.check_c11_files(case, files, ctx)
        if not got or got[0] is None:
            return
        (cuts, breaks, joins), info = got
        out_rows = []
        for name, data in files.items():
            if name.endswith(".agp"):
                out_rows += [rows for _n, rows in c03_cli.parse_agp_rows(data.decode())]
        inp = pv.tuplify(case[2]) if len(case) > 2 else c03_cli.INP
        nin = sum(1 for _, rows in inp for r in rows if r[0] == "F")
        nout = sum(1 for rows in out_rows for r in rows if r[0] == "F")
        j_in = junction_set(rows for _, rows in inp)
        j_out = junction_set(out_rows)
        want = (nout - nin, len(j_in - j_out), len(j_out - j_in))
        if (cuts, breaks, joins) != want:
            ctx.violation("log-line-miscounts", case, f"log says cuts,breaks,joins={(cuts, breaks, joins)} files say {want}")
        if "manual_breaks" in info and (info["manual_breaks"], info["manual_joins"]) != want[1:]:
            ctx.violation("yaml-miscounts", case, f"yaml {info!r} files say {want}")

    def run_case(self, inp, pvspec, ctx, kind):
        case = [kind, pv.jsonable(inp), pv.jsonable(pvspec)]
        ctx.cur = case
        ctx.evaluations += 1
        try:
            ba, out, _ = pv.remap(inp, pvspec)
        except Exception as e:  # noqa: BLE001
            ctx.count("raised_" + type(e).__name__)
            return
        st = ba.assembly_stats
        ospec = pv.out_spec(out)
        nin = sum(1 for _, rows in inp for r in rows if r[0] == "F")
        nout = sum(1 for lst in ospec.values() for _, rows in lst for r in rows if r[0] == "F")
        j_in = junction_set(rows for _, rows in inp)
        j_out = junction_set(rows for lst in ospec.values() for _, rows in lst)
        want = (nout - nin, len(j_in - j_out), len(j_out - j_in))
        got = (st.cuts, st.breaks, st.joins)
        if any(want) or any(r[0] == "F" and r[4] == -1 for lst in ospec.values() for _, rows in lst for r in rows):
            ctx.nontrivial += 1
        if got[0] != want[0]:
            ctx.violation("cuts-miscounted", case, f"cuts={got[0]} expected {want[0]} (output fragments {nout}, input contigs {nin})")
        if got[1] != want[1] or got[2] != want[2]:
            ctx.violation(
                "breaks-joins-miscounted",
                case,
                f"breaks,joins={got[1:]} expected {want[1:]}; broken={sorted(map(sorted, j_in - j_out))!r} joined={sorted(map(sorted, j_out - j_in))!r}",
            )
        ctx.outcome(h64((ospec, got)))
        # history: the fused assemblies are requested a second time from the same object
        try:
            out2 = ba.assemblies_with_scaffolds_fused()
        except Exception as e:  # noqa: BLE001
            ctx.count("second_request_raised_" + type(e).__name__)
            return
        st2 = ba.assembly_stats
        o2 = pv.out_spec(out2)
        nout2 = sum(1 for lst in o2.values() for _, rows in lst for r in rows if r[0] == "F")
        j_out2 = junction_set(rows for lst in o2.values() for _, rows in lst)
        want2 = (nout2 - nin, len(j_in - j_out2), len(j_out2 - j_in))
        if (st2.cuts, st2.breaks, st2.joins) != want2:
            ctx.violation("second-request-miscounts", case, f"after a second assemblies_with_scaffolds_fused(): cuts,breaks,joins={(st2.cuts, st2.breaks, st2.joins)} expected {want2}")

    def run_shard(self, shard, ctx):
        kind = shard[0]
        if kind == "cli":
            from mc.checks import c03_cli

            return c03_cli.run_shard(self, shard, ctx, validate_only=True, extra=self.cli_extra)
        if kind in ("baits", "tags"):
            chk = c01.CHECK
            saved = chk.run_case
            try:
                chk.run_case = lambda inp, pvspec, c, k: self.run_case(inp, pvspec, c, kind)
                (chk.scope_baits if kind == "baits" else chk.scope_tags)(*shard[1:], ctx)
            finally:
                chk.run_case = saved
            return
        _, bpt, chunk, chunks, tier = shard
        full = tier == "thorough"
        e = err_len(bpt)
        inputs = inputs_for(bpt, tier)
        for i, inp in enumerate(inputs):
            if i % chunks != chunk:
                continue
            two = len(inp) > 1
            for pieces in pv.pv_piece_lists(inp, bpt, max_cuts=1 if two else 2, max_pieces=3, margin=e + 2):
                n = len(pieces)
                arrs = pv.arrangements(n) if (n < 3 or full) else pv.arrangements_reduced(n)
                for arr in arrs:
                    if not full and n == 3 and len(arr) == 2:
                        continue
                    for painted in pv.painted_patterns(len(arr), full=False)[:2]:
                        self.run_case(inp, pv.make_pv(bpt, pieces, arr, painted), ctx, "pv")
        if inputs:
            inp = inputs[chunk % len(inputs)]
            pieces = list(pv.pv_piece_lists(inp, bpt, 2, 3, margin=e + 2))[-1]
            ctx.sample({"input": pv.jsonable(inp), "pretext": pv.jsonable(pv.make_pv(bpt, pieces, next(iter(pv.arrangements(len(pieces)))), None))})

    def replay(self, case, ctx):
        if case[0] == "cli":
            from mc.checks import c03_cli

            return c03_cli.replay(self, case, ctx, validate_only=True, extra=self.cli_extra)
        kind, inp, pvspec = case
        self.run_case(pv.tuplify(inp), (pvspec[0], pv.tuplify(pvspec[1])), ctx, kind)


CHECK = C11()
# scope added in later rounds, kept in the evidence text
CHECK.rule += ' Input scaffolds that begin with a gap, and with two gap rows in a row. Inputs with a scaffold that has no contig at all (gap only, 1 or 2E bases) before / between scaffolds with junctions.'
