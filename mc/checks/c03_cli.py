"""CLI slice of C03 (filled in below once the PretextView model exists)."""


def shards(tier):
    return []


def run_shard(chk, shard, ctx):
    raise NotImplementedError


def replay(chk, case, ctx):
    raise NotImplementedError
