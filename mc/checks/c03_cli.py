"""
CLI slice shared by C03 / C06 / C09 / C11: pretext-to-asm -o x.fa on a
generated FASTA and PretextView-model maps (scratch files), then every
<name>.fa / <name>.agp pair is checked against each other and against the
input sequences; info.yaml, log and file names are checked for C09 / C11.
"""

import logging
import re

from mc import agpcheck, cli, pv
from mc import fastamodel as fm
from mc.engine import h64

INP = (
    ("scaffold_1", (("F", "scaffold_1", 1, 24, 1), ("G", 5, "scaffold"), ("F", "scaffold_1", 30, 61, 1))),
    ("HAP1_SCAFFOLD_2", (("F", "HAP1_SCAFFOLD_2", 1, 27, 1),)),
    ("scaffold_3", (("F", "scaffold_3", 1, 2, 1),)),
)
INP2 = (
    # a 4-bp contig between two gaps: cuts through it give sub-texel overlaps on both sides
    ("scaffold_1", (("F", "scaffold_1", 1, 20, 1), ("G", 3, "scaffold"), ("F", "scaffold_1", 24, 27, 1), ("G", 8, "scaffold"), ("F", "scaffold_1", 36, 65, 1))),
    ("scaffold_3", (("F", "scaffold_3", 1, 2, 1),)),
)
INP3 = (
    # (two contigs each, so that every haplotype has input junctions and gets its own row in info.yaml)
    ("HAP1_SCAFFOLD_1", (("F", "HAP1_SCAFFOLD_1", 1, 14, 1), ("G", 2, "scaffold"), ("F", "HAP1_SCAFFOLD_1", 17, 30, 1))),
    ("HAP2_SCAFFOLD_2", (("F", "HAP2_SCAFFOLD_2", 1, 12, 1), ("G", 4, "scaffold"), ("F", "HAP2_SCAFFOLD_2", 17, 28, 1))),
    ("HAP1_SCAFFOLD_3", (("F", "HAP1_SCAFFOLD_3", 1, 12, 1),)),
    ("HAP2_SCAFFOLD_4", (("F", "HAP2_SCAFFOLD_4", 1, 14, 1),)),
)
INP4 = (
    # sequence without any haplotype next to a single haplotype tag / haplotype-prefixed unplaced scaffold
    ("scaffold_1", (("F", "scaffold_1", 1, 14, 1), ("G", 2, "scaffold"), ("F", "scaffold_1", 17, 30, 1))),
    ("scaffold_2", (("F", "scaffold_2", 1, 20, 1),)),
    ("scaffold_3", (("F", "scaffold_3", 1, 12, 1),)),
    ("HAP2_SCAFFOLD_9", (("F", "HAP2_SCAFFOLD_9", 1, 3, 1),)),
)
BPT = 2.5
TAGSETS = [(), ("Haplotig",), ("Contaminant",), ("FalseDuplicate",)]


def cases(tier):
    """(pv spec) list"""
    out = []
    e = 3
    present = INP[:2]
    for pieces in pv.pv_piece_lists(present, BPT, max_cuts=1, max_pieces=3, min_pieces=2, margin=e + 2 if tier == "thorough" else 1):
        np_ = len(pieces)
        arrs = list(pv.arrangements_reduced(np_)) if tier == "thorough" else [
            tuple(((i, 1),) for i in range(np_)),
            (tuple((i, 1 if i % 2 == 0 else -1) for i in range(np_)),),
            tuple(((i, -1),) for i in reversed(range(np_))),
        ]
        for arr in arrs:
            ng = len(arr)
            for painted in ((False,) * ng, (True,) * ng):
                for tagged_piece in [None, *range(np_)]:
                    for t in TAGSETS[1:] if tagged_piece is not None else [()]:
                        tags = [()] * np_
                        if tagged_piece is not None:
                            tags[tagged_piece] = t
                        out.append((INP, pv.make_pv(BPT, pieces, arr, painted, tags)))
    # second family: one scaffold with a sub-texel contig, two cuts, one piece tagged
    for pieces in pv.pv_piece_lists(INP2[:1], BPT, max_cuts=2, max_pieces=3, min_pieces=3, margin=e + 2 if tier == "thorough" else 3):
        for arr in (tuple(((i, 1),) for i in range(3)), tuple(((i, 1),) for i in (1, 0, 2)), (tuple((i, 1) for i in range(3)),)):
            for painted in ((False,) * len(arr), (True,) * len(arr)):
                for tagged_piece in range(3):
                    for t in (("Haplotig",), ("Contaminant",)):
                        tags = [()] * 3
                        tags[tagged_piece] = t
                        out.append((INP2, pv.make_pv(BPT, pieces, arr, painted, tags)))
    # third family: two haplotypes (optionally Primary mode), a tagged piece inside a haplotype scaffold, and two
    # contaminants from different input scaffolds joined in one Pretext scaffold (pieces are whole scaffolds, 2 bp/texel)
    for primary in (False, True):
        for xtag in ((), ("FalseDuplicate",), ("Haplotig",), ("Contaminant",)):
            for join in (False, True):
                for flip in (1, -1):
                    h1 = ("Painted", "Hap1") + (("Primary",) if primary else ())
                    s1 = ("Scaffold_1", (("HAP1_SCAFFOLD_1", 1, 30, 1, h1),))
                    s2 = ("Scaffold_2", (("HAP2_SCAFFOLD_2", 1, 28, flip, ("Painted", "Hap2")), ("HAP2_SCAFFOLD_4", 1, 14, 1, ("Painted", "Hap2") + xtag)))
                    ctag = ("Contaminant",) if join else ()
                    s3 = ("Scaffold_3", (("HAP1_SCAFFOLD_3", 1, 12, flip, ctag),))
                    scs = [s1, s2, s3]
                    if join:
                        # the second contaminant comes from another input scaffold: a join inside the contaminants file
                        scs[1] = ("Scaffold_2", (("HAP2_SCAFFOLD_2", 1, 28, flip, ("Painted", "Hap2")),))
                        scs[2] = ("Scaffold_3", (("HAP1_SCAFFOLD_3", 1, 12, flip, ctag), ("HAP2_SCAFFOLD_4", 1, 14, 1, ctag + xtag)))
                    out.append((INP3, (2.0, tuple(scs))))
    # fourth family: untagged chromosomes plus one scaffold carrying a haplotype tag (a second curated assembly in a
    # single-haplotype map), optionally a haplotig, optionally a haplotype-prefixed scaffold absent from the map
    for hap in ("Hap2", "Hap1"):
        for hp in (False, True):
            for flip in (1, -1):
                for third in ((), ("Haplotig",), ("Contaminant",), None):
                    for with9 in (False, True):
                        scs = [
                            ("Scaffold_1", (("scaffold_1", 1, 30, 1, ("Painted",)),)),
                            ("Scaffold_2", (("scaffold_2", 1, 20, flip, (("Painted", hap) if hp else (hap,))),)),
                        ]
                        if third is not None:
                            scs.append(("Scaffold_3", (("scaffold_3", 1, 12, 1, third),)))
                        out.append((INP4 if with9 else INP4[:3], (2.0, tuple(scs))))
    return out


def shards(tier):
    n = 16
    return [("cli", c, n, tier) for c in range(n)]


def parse_fasta(data):
    recs = []
    for line in data.split(b"\n"):
        if line.startswith(b">"):
            recs.append([line[1:].decode(), [], False])
        elif recs:
            recs[-1][1].append(line)
    return recs


def parse_agp_rows(text):
    objs = []
    cur = None
    for line in text.splitlines():
        if not line.strip() or line.startswith("#"):
            continue
        f = line.split("\t")
        if f[0] != cur:
            cur = f[0]
            objs.append((cur, []))
        if f[4] in ("U", "N"):
            objs[-1][1].append(("G", int(f[5]), f[6]))
        else:
            objs[-1][1].append(("F", f[5], int(f[6]), int(f[7]), {"+": 1, "-": -1, "?": 0}[f[8]]))
    return objs


def file_cover(files):
    """{input sequence name: [(start, end, file)]} from the component rows of every .agp beside a .fa"""
    cover = {}
    for fa in sorted(n for n in files if n.endswith(".fa")):
        agp_name = fa[: -len(".fa")] + ".agp"
        if agp_name in files:
            for _, rows in parse_agp_rows(files[agp_name].decode()):
                for r in rows:
                    if r[0] == "F":
                        cover.setdefault(r[1], []).append((r[2], r[3], fa))
    return cover


def check_files_partition(case, files, seqs, ctx):
    """
    across all files written, the AGP component rows cover every input residue run exactly once
    (a file overwritten by a second assembly of the same run, or an assembly never written, shows here)
    """
    cover = file_cover(files)
    fas = sorted(n for n in files if n.endswith(".fa"))
    for name, seq in seqs.items():
        runs = [(m.start() + 1, m.end()) for m in re.finditer(rb"[^Nn]+", seq)]
        ivs = sorted(cover.pop(name, []))
        merged = []
        bad = None
        for a, b, fa in ivs:
            if merged and a <= merged[-1][1]:
                bad = f"{name}:{a}-{b} in {fa} overlaps an earlier row"
                break
            if merged and a == merged[-1][1] + 1:
                merged[-1][1] = b
            else:
                merged.append([a, b])
        if bad is None and [tuple(m) for m in merged] != runs:
            bad = f"{name}: rows cover {merged!r}, input residue runs are {runs!r}"
        if bad:
            ctx.violation("cli-files-do-not-partition-input", case, bad + f" (files {fas!r})")
            return
    if cover:
        ctx.violation("cli-files-do-not-partition-input", case, f"rows name unknown sequences {sorted(cover)!r}")


def check_outputs(case, files, seqs, ctx, validate_only=False):
    """files: {name: bytes} of the output directory"""
    for n in sorted(files):
        if n.endswith(".agp"):
            try:
                parse_agp_rows(files[n].decode())
            except (IndexError, ValueError, KeyError, UnicodeDecodeError) as e:
                ctx.violation("agp-unparseable/cli", case, f"{n}: {type(e).__name__}: {files[n][-200:]!r}")
                return
    fas = sorted(n for n in files if n.endswith(".fa"))
    if not fas:
        ctx.violation("cli-no-fasta-written", case, f"{sorted(files)!r}")
        return
    if not validate_only:
        check_files_partition(case, files, seqs, ctx)
    for fa in fas:
        agp_name = fa[: -len(".fa")] + ".agp"
        if agp_name not in files:
            ctx.violation("agp-companion-missing", case, f"{fa} without {agp_name}")
            continue
        agp_text = files[agp_name].decode()
        objs = parse_agp_rows(agp_text)
        recs = parse_fasta(files[fa])
        rec_len = {name: sum(len(ln) for ln in lines) for name, lines, _ in recs}
        for klass, detail in agpcheck.validate_agp(agp_text, rec_len if len(rec_len) == len(recs) else None, [n for n, _, _ in recs])[:3]:
            ctx.violation(klass + "/cli", case, f"{agp_name}: {detail}")
        if validate_only:
            continue
        names = [n for n, _, _ in recs]
        if len(set(names)) != len(names):
            ctx.violation("fasta-duplicate-record-names", case, f"{fa}: {names!r}")
        if names != [n for n, _ in objs]:
            ctx.violation("fasta-records-ne-agp-objects", case, f"{fa}: {names!r} vs {[n for n, _ in objs]!r}")
            continue
        want = fm.expected_stream(seqs, objs, 60)
        if files[fa] != want:
            ctx.violation("fasta-ne-agp-applied-to-input", case, f"{fa}: got {files[fa][:200]!r} expected {want[:200]!r}")
        for name, lines, _ in recs:
            body = [ln for ln in lines]
            if body and body[-1] == b"":
                body = body[:-1]
            if any(len(ln) == 0 or len(ln) > 60 for ln in body):
                ctx.violation("fasta-line-lengths", case, f"{fa}/{name}")


def check_c09_files(case, files, pvspec, ctx):
    """file names carry the routing: haplotigs / contaminants / falseduplicates / primary.curated"""
    tags = {t for _, ps in pvspec[1] for p in ps for t in p[4]}
    if len(case) > 2:
        inp = pv.tuplify(case[2])
        check_files_partition(case, files, cli.sequences_for(inp), ctx)
        # whole-scaffold pieces in maps without Primary / Target mode: the file that holds the sequence
        if not tags & {"Primary", "Target"}:
            cover = file_cover(files)
            lengths = {n: pv.scaffold_length(rows) for n, rows in inp}
            for _, ps in pvspec[1]:
                for p in ps:
                    if not (p[1] == 1 and p[2] == lengths.get(p[0])):
                        continue
                    held = {fa for _, _, fa in cover.get(p[0], [])}
                    destr = [t for t in ("FalseDuplicate", "Haplotig", "Contaminant") if t in p[4]]
                    haps = [t for t in p[4] if re.fullmatch(r"Hap\d+", t)]
                    if destr:
                        want = {"FalseDuplicate": ".falseduplicates.", "Haplotig": "haplotigs", "Contaminant": ".contaminants."}[destr[0]]
                    elif haps:
                        want = "." + haps[0].lower()
                    elif not re.match(r"(?i)hap\d+_", p[0]) and not any(re.fullmatch(r"Hap\d+", t) for _, qs in pvspec[1] for q in qs if q is not p for t in q[4] if len(qs) > 1 and p in qs):
                        want = ".primary."
                    else:
                        continue
                    if len(held) != 1 or want not in next(iter(held)):
                        ctx.violation("cli-sequence-in-wrong-file", case, f"{p[0]} (tags {p[4]!r}) is in {sorted(held)!r}, expected one file named *{want}*")
    want = {"Haplotig": ("additional_haplotigs.curated.fa", ".haplotigs.fa"), "Contaminant": (".contaminants.fa",), "FalseDuplicate": (".falseduplicates.fa",)}
    # pieces that are whole input scaffolds cannot lose their rows to a neighbour: there the file must exist
    whole = len(case) > 2 and all(any(p[0] == n and p[1] == 1 and p[2] == pv.scaffold_length(pv.tuplify(rows)) for n, rows in case[2]) for _, ps in pvspec[1] for p in ps)
    for t, sfxs in want.items():
        has = any(n.endswith(sfxs) for n in files)
        # a piece carrying two destructive tags goes to one of them (FalseDuplicate / Haplotig before Contaminant)
        expected = any(t in p[4] and not (t == "Contaminant" and ("FalseDuplicate" in p[4] or "Haplotig" in p[4])) and not (t == "Haplotig" and "FalseDuplicate" in p[4]) for _, ps in pvspec[1] for p in ps)
        if has and t not in tags:
            ctx.violation("cli-unexpected-assembly-file", case, f"*{sfxs[0]} written but no piece is tagged {t}")
        elif whole and expected and not has:
            ctx.violation("cli-tagged-assembly-file-missing", case, f"a piece is tagged {t} but no *{sfxs[-1]} was written: {sorted(files)!r}")
    if not any(n.endswith("primary.curated.fa") for n in files) and not any("Hap1" in p[4] for _, ps in pvspec[1] for p in ps) and not all(
        any(t in p[4] for t in want) for _, ps in pvspec[1] for p in ps
    ):
        ctx.violation("cli-no-primary-file", case, f"{sorted(files)!r}")


def check_c11_files(case, files, ctx):
    import yaml

    y = next((n for n in files if n.endswith(".info.yaml")), None)
    if y is None:
        ctx.violation("cli-no-info-yaml", case, f"{sorted(files)!r}")
        return
    info = yaml.safe_load(files[y])
    hap = next((n for n in files if n.endswith(("additional_haplotigs.curated.fa", ".haplotigs.fa"))), None)
    nrec = sum(1 for ln in files[hap].split(b"\n") if ln.startswith(b">")) if hap else 0
    if info.get("manual_haplotig_removals") != nrec:
        ctx.violation("yaml-haplotig-removals", case, f"yaml says {info.get('manual_haplotig_removals')}, haplotig file has {nrec} records")
    log = next((n for n in files if n.endswith(".log")), None)
    if log:
        m = re.search(rb"Curation made (\d+) cuts? in (?:a )?contigs?, (\d+) breaks? at (?:a )?gaps? and (\d+) joins?", files[log])
        if not m:
            ctx.violation("log-curation-line-missing", case, files[log][-300:].decode(errors="replace"))
        else:
            return tuple(int(x) for x in m.groups()), info
    return None, info


def run_one(chk, inp, pvspec, ctx, validate_only=False, extra=None, restaged=False):
    """
    restaged: the FASTA path held an earlier, longer version of the assembly (other lengths and gap layout) which a
    first invocation with the same --output indexed and wrote out; the FASTA is then rewritten within the same
    clock tick as its cache files (equal mtimes) and the command is repeated (default --clobber).
    warm-crlf: the FASTA has CRLF line ends; the command is run twice and the second run (index loaded from the cache
    files the first wrote) is the one checked.
    """
    mode = restaged if isinstance(restaged, str) else ("restaged" if restaged else None)
    # "restaged-same": as restaged, but the earlier version differs in its bases only (same lengths, same N runs - a
    # polished assembly), so the second run writes the same file set and every file in the directory is its output
    same_layout = mode == "restaged-same"
    # "half-updated": as restaged, but the FASTA is clearly newer than the old cache, and a re-indexing run died after it
    # had written the new .fai and before the .agp (fresh .fai, old .agp)
    half = mode == "half-updated"
    # "fai-lost": as restaged, but the new FASTA carries an old modification time (cp -p / rsync -t of an older file), the
    # .fai has gone and the earlier version's .agp is still there, newer than the FASTA; the command is run once (it has
    # to index again; the .agp beside the FASTA must then describe the FASTA) and the run after that is the one checked
    fai_lost = mode == "fai-lost"
    restaged = mode in ("restaged", "restaged-same", "half-updated", "fai-lost")
    case = ["cli", pv.jsonable(pvspec), pv.jsonable(inp)] + ([mode] if mode else [])
    ctx.cur = case
    ctx.evaluations += 1
    ctx.nontrivial += 1
    d = cli.scratch("verif_cli_")
    logging.disable(logging.NOTSET)
    try:
        (d / "in").mkdir()
        (d / "out").mkdir()
        fa = d / "in" / "asm.fa"
        cli.write_pretext(d / "in" / "map.agp", pvspec)
        if restaged:
            import os

            old = cli.sequences_for(inp)
            with open(fa, "wb") as fh:
                for name, seq in old.items():
                    if same_layout:
                        fh.write(b">" + name.encode() + b"\n" + seq.translate(fm.COMP_TABLE) + b"\n")
                    else:
                        fh.write(b">" + name.encode() + b"\n" + b"ACGTNN" + seq + b"\n")
            cli.invoke_p2a(["-a", fa, "-p", d / "in" / "map.agp", "-o", d / "out" / "x.fa"])
            for p in (d / "out").iterdir() if not same_layout else ():
                os.utime(p, (1000, 1000))  # files the second run does not write again are left-overs, not its output
            if not (d / "in" / "asm.fa.fai").exists() or not (d / "in" / "asm.fa.agp").exists():
                ctx.count("restaged_without_cache_files")
            seqs = cli.write_fasta(fa, inp, width=7)
            mt = os.stat(fa).st_mtime_ns
            if half:
                from tola.fasta.index import FastaIndex, index_fasta_file

                old_agp = os.stat(d / "in" / "asm.fa.agp").st_mtime_ns if (d / "in" / "asm.fa.agp").exists() else mt
                mt = max(mt, old_agp) + 5_000_000_000
                os.utime(fa, ns=(mt, mt))
                fi_ = FastaIndex(fa)
                fi_.index, _asm = index_fasta_file(fa)
                fi_.write_index()
                os.utime(d / "in" / "asm.fa.fai", ns=(mt + 5_000_000_000, mt + 5_000_000_000))
            for p in (fa, d / "in" / "asm.fa.fai", d / "in" / "asm.fa.agp") if not (half or fai_lost) else ():
                if p.exists():
                    os.utime(p, ns=(mt, mt))
            if fai_lost:
                os.utime(fa, (1_000_000_000, 1_000_000_000))
                if (d / "in" / "asm.fa.fai").exists():
                    os.unlink(d / "in" / "asm.fa.fai")
                (d / "out_mid").mkdir()
                cli.invoke_p2a(["-a", fa, "-p", d / "in" / "map.agp", "-o", d / "out_mid" / "x.fa"])
                try:
                    got_len = {n: sum(r[1] if r[0] == "G" else r[3] - r[2] + 1 for r in rows) for n, rows in parse_agp_rows((d / "in" / "asm.fa.agp").read_text())}
                except (OSError, IndexError, ValueError, KeyError) as e:
                    got_len = repr(e)
                want_len = {n: len(sq) for n, sq in seqs.items()}
                if got_len != want_len:
                    ctx.violation("index-agp-beside-fasta-stale-after-reindexing", case, f".agp object lengths {got_len!r}, FASTA records {want_len!r}")
                    return None
            ctx.count("cli_runs_restaged")
        elif mode == "warm-crlf":
            seqs = cli.write_fasta(fa, inp, width=7, eol=b"\r\n")
            (d / "out0").mkdir()
            rc0, _o, _e, _x = cli.invoke_p2a(["-a", fa, "-p", d / "in" / "map.agp", "-o", d / "out0" / "x.fa"])
            first = cli.dir_files(d / "out0") if rc0 == 0 else None
            ctx.count("cli_runs_warm_crlf")
        else:
            seqs = cli.write_fasta(fa, inp, width=7)
        rc, _o, err, exc = cli.invoke_p2a(["-a", d / "in" / "asm.fa", "-p", d / "in" / "map.agp", "-o", d / "out" / "x.fa"])
        if rc != 0:
            ctx.count("cli_exit_nonzero")
            return None
        files = cli.dir_files(d / "out")
        if restaged and not same_layout:
            files = {k: v for k, v in files.items() if (d / "out" / k).stat().st_mtime != 1000}
        if mode == "warm-crlf" and first is not None:
            diff = sorted(k for k in set(files) | set(first) if files.get(k) != first.get(k) and not k.endswith(".log"))
            if diff:
                ctx.violation("cli-second-run-differs-from-first", case, f"{diff!r}")
        check_outputs(case, files, seqs, ctx, validate_only=validate_only)
        if extra:
            extra(case, files, pvspec, ctx)
        ctx.outcome(h64(sorted((k, v) for k, v in files.items() if not k.endswith(".log"))))
        return files
    finally:
        logging.disable(logging.CRITICAL)
        cli.cleanup(d)


def run_shard(chk, shard, ctx, validate_only=False, extra=None):
    _, chunk, chunks, tier = shard
    cs = cases(tier)
    for i, (inp, pvspec) in enumerate(cs):
        if i % chunks == chunk:
            run_one(chk, inp, pvspec, ctx, validate_only=validate_only, extra=extra)
            if (i // chunks) % 6 == 0:
                run_one(chk, inp, pvspec, ctx, validate_only=validate_only, extra=extra, restaged=True)
            if (i // chunks) % 6 == 3:
                run_one(chk, inp, pvspec, ctx, validate_only=validate_only, extra=extra, restaged="warm-crlf")
            if (i // chunks) % 6 == 1:
                run_one(chk, inp, pvspec, ctx, validate_only=validate_only, extra=extra, restaged="half-updated")
            if (i // chunks) % 6 == 5:
                run_one(chk, inp, pvspec, ctx, validate_only=validate_only, extra=extra, restaged="restaged-same")
            if (i // chunks) % 6 == 2:
                run_one(chk, inp, pvspec, ctx, validate_only=validate_only, extra=extra, restaged="fai-lost")
    ctx.count("cli_runs", sum(1 for i in range(len(cs)) if i % chunks == chunk))
    if chunk == 0 and cs:
        ctx.sample({"cli": "pretext-to-asm -a asm.fa -p map.agp -o x.fa", "pretext": pv.jsonable(cs[0][1]), "input": pv.jsonable(cs[0][0])})


def replay(chk, case, ctx, validate_only=False, extra=None):
    _, pvspec = case[:2]
    inp = pv.tuplify(case[2]) if len(case) > 2 else INP
    run_one(chk, inp, (pvspec[0], pv.tuplify(pvspec[1])), ctx, validate_only=validate_only, extra=extra, restaged=case[3] if len(case) > 3 else False)
