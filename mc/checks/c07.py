"""
C07 - every join carries a gap and retained neighbours keep their input gap.

E1: PretextView-model scripts biased to the situations the statement names
(trailing contigs inside the final partial texel, scaffolds absent from the
map, cut contigs whose halves meet again, five separator kinds) plus the
arbitrary-bait scope for the first sentence.
"""

import itertools
import math

from mc import pv
from mc.checks import c01
from mc.engine import Check, h64

SEPS = [
    (),
    (("G", 2, "scaffold"),),
    (("G", 200, "scaffold"),),
    (("G", 7, "contig"),),
    (("G", 3, "contig"), ("G", 5, "scaffold")),
    (("G", 0, "scaffold"),),  # a zero-length gap row (TPF input only; two-contig family)
]


def err_len(bpt):
    return 1 + math.floor(bpt)


def inputs_absent_gaps(bpt):
    """
    10 bp/texel: a mapped scaffold plus one or two sub-texel scaffolds that hold gaps of different kinds (three 1-bp
    contigs): absent from the map or present, their neighbours must keep exactly their own gaps
    """
    out = []
    for style in ("tpf", "fasta"):
        a = ("scaffold_1", pv.scaffold_rows(style, "scaffold_1", (25, 12), ((("G", 5, "scaffold"),),), (1, 1)))
        for g1, g2 in itertools.permutations([("G", 2, "contig"), ("G", 3, "scaffold"), ("G", 1, "centromere")], 2):
            b = ("scaffold_2", pv.scaffold_rows(style, "scaffold_2", (1, 1, 1), ((g1,), (g2,)), (1, 1, 1)))
            c = ("scaffold_3", pv.scaffold_rows(style, "scaffold_3", (2, 1), ((g2,),), (1, 1)))
            out.append((a, b))
            out.append((b, a))
            out.append((a, b, c))
    return out


def inputs_for(bpt, tier):
    if bpt == 10.0:
        return inputs_absent_gaps(bpt)
    e = err_len(bpt)
    full = tier == "thorough"
    heads = [e, 4 * e + 2] if not full else [1, e, 4 * e + 2]
    tails = list(range(1, e + 2))
    out = []
    for style in ("tpf", "fasta"):
        strands = (1, -1) if style == "tpf" else (1,)
        # two contigs: head + short tail
        for h in heads:
            for t in tails:
                for sep in SEPS:
                    if style == "fasta" and (not sep or sep[0][1] == 0):
                        continue
                    for st in itertools.product(strands, repeat=2):
                        out.append((("scaffold_1", pv.scaffold_rows(style, "scaffold_1", (h, t), (sep,), st)),))
        # three contigs: head, middle, short tail(s)
        mids = [1, e] if not full else [1, e, e + 1]
        for h in heads[-1:] if not full else heads[1:]:
            for m in mids:
                for t in (1, e):
                    for s1, s2 in itertools.product([SEPS[0], SEPS[1], SEPS[3]] if not full else [SEPS[0], SEPS[1], SEPS[3], SEPS[4]], repeat=2):
                        if style == "fasta" and (not s1 or not s2):
                            continue
                        for st in ((1, 1, 1), (1, -1, 1)) if style == "tpf" else ((1, 1, 1),):
                            out.append((("scaffold_1", pv.scaffold_rows(style, "scaffold_1", (h, m, t), (s1, s2), st)),))
        # second scaffold that may be absent from the map (sub-texel) or present
        for h in heads:
            for t in (1, e):
                for sep in SEPS[:4]:
                    if style == "fasta" and not sep:
                        continue
                    a = ("scaffold_1", pv.scaffold_rows(style, "scaffold_1", (h, t), (sep,), (1, 1)))
                    for l2 in (1, e - 1 if e > 2 else 1, 2 * e + 1):
                        b = ("scaffold_2", pv.scaffold_rows(style, "scaffold_2", (l2,), (), (1,)))
                        out.append((a, b))
                    b = ("scaffold_2", pv.scaffold_rows(style, "scaffold_2", (1, 1), (sep,), (1, 1)))
                    out.append((a, b))
    # scaffolds that begin and / or end with a gap (leading / trailing Ns of a FASTA record)
    for h in heads:
        for lead, trail in ((3, 0), (0, 4), (3, 4), (2 * e + 1, e)):
            for style in ("tpf", "fasta"):
                rows = []
                pos = 0
                if lead:
                    rows.append(("G", lead, "scaffold"))
                    pos += lead
                for i, ln in enumerate((h, e + 1)):
                    if i:
                        rows.append(("G", 7, "contig"))
                        pos += 7
                    if style == "tpf":
                        rows.append(("F", f"scaffold_1.c{i + 1}", 1, ln, 1))
                    else:
                        rows.append(("F", "scaffold_1", pos + 1, pos + ln, 1))
                    pos += ln
                if trail:
                    rows.append(("G", trail, "scaffold"))
                out.append((("scaffold_1", tuple(rows)),))
                out.append((("scaffold_1", tuple(rows)), ("scaffold_2", pv.scaffold_rows(style, "scaffold_2", (2 * e + 1,), (), (1,)))))
    # dedupe
    seen = set()
    res = []
    for x in out:
        if x not in seen:
            seen.add(x)
            res.append(x)
    return res


class C07(Check):
    pid = "C07"
    level_text = (
        "Bounded exhaustive over PretextView scripts biased to sub-texel tails, absent scaffolds, re-meeting halves and five separator kinds, plus arbitrary bait multisets; facing-end adjacency model as oracle."
    )
    technique = (
        "exhaustive scope enumeration on the real BuildAssembly: PretextView-model scripts on inputs with sub-texel tails, absent "
        "scaffolds and five separator kinds, plus arbitrary bait multisets; facing-end adjacency model as oracle"
    )
    rule = (
        "case = (input assembly, Pretext assembly). inputs: head contig {E,4E+2} (+1 thorough) + tail contig 1..E+1, 3-contig scaffolds with "
        "1/E-long middle and tail, a second scaffold of 1 / <E / 2E+1 bases or two 1-bp contigs; separators {none, 2 scaffold, 200 scaffold, "
        "7 contig, double gap 3+5}; TPF naming with both strands and FASTA naming; bpt {1,2.5} (+4 thorough); scripts: all cut sets (window "
        "E+2 | 3E+2), <=3 pieces, floor/ceil texel counts, sub-texel scaffolds present/absent, permutations x orientation patterns x groupings, "
        "painted {none, all}; plus every multiset of <=3 baits on the 5 tiny inputs of C01 (first sentence only). Oracle (1) no terminal gap, "
        "gapless neighbours only if gapless (or one contig) in input; (2) separator == input separator of the same facing ends or == join gap "
        "200/scaffold, join gap mandatory for non-neighbours. non-trivial = completed remap with at least one junction in the output"
        " Added inputs: scaffolds that begin and / or end with a gap."
    )
    assumptions = ["PretextView model of DESIGN.md 3.2", "clause (2) evaluated on PretextView-model maps only, clause (1) on every completed remap"]
    shard_timeout = {"quick": 600, "thorough": 5400}

    def bpts(self, tier):
        return [1.0, 2.5] if tier == "quick" else [1.0, 2.5, 4.0]

    def bounds(self, tier):
        return {"bpt": self.bpts(tier), "max_pieces": 3, "separators": [pv.jsonable(s) for s in SEPS], "bait_multiset_size": 3}

    def shards(self, tier):
        out = []
        chunks = 24 if tier == "quick" else 64
        for bpt in self.bpts(tier):
            for c in range(chunks):
                out.append(("pv", bpt, c, chunks, tier))
        for c in range(4):
            out.append(("pv", 10.0, c, 4, tier))  # the absent-scaffolds-with-gaps family only
        for bpt in (1.0, 2.5):
            for i in range(5):
                for variant in (0, 1):
                    out.append(("baits", bpt, i, variant, tier))
        for bpt in self.bpts(tier):
            for c in range(8):
                out.append(("tags", bpt, c, 8, tier))
        return out

    def run_case(self, inp, pvspec, ctx, kind):
        case = [kind, pv.jsonable(inp), pv.jsonable(pvspec)]
        ctx.cur = case
        ctx.evaluations += 1
        try:
            ba, out, _ = pv.remap(inp, pvspec)
        except Exception as e:  # noqa: BLE001
            ctx.count("raised_" + type(e).__name__)
            return
        errs, njoin, nkept = pv.gap_errors(inp, out, pv_model=(kind == "pv"))
        if njoin or nkept or errs:
            ctx.nontrivial += 1
        ctx.count("join_gaps_seen", njoin)
        ctx.count("input_gaps_kept", nkept)
        if any(sc.rank == 3 and sc.original_name is None for a in out.values() for sc in a.scaffolds):
            ctx.count("runs_with_leftover_scaffold")
        for klass, detail in errs[:3]:
            ctx.violation(klass + ("" if kind == "pv" else "/arbitrary-baits"), case, detail)
        ctx.outcome(h64(pv.out_spec(out)))

    def run_shard(self, shard, ctx):
        if shard[0] in ("baits", "tags"):
            # reuse the C01 bait / tagged-script scopes with this oracle
            chk = c01.CHECK
            saved = chk.run_case
            try:
                if shard[0] == "baits":
                    chk.run_case = lambda inp, pvspec, c, kind: self.run_case(inp, pvspec, c, "baits")
                    chk.scope_baits(*shard[1:], ctx)
                else:
                    chk.run_case = lambda inp, pvspec, c, kind: self.run_case(inp, pvspec, c, "pv")
                    chk.scope_tags(*shard[1:], ctx)
            finally:
                chk.run_case = saved
            return
        _, bpt, chunk, chunks, tier = shard
        full = tier == "thorough"
        e = err_len(bpt)
        inputs = inputs_for(bpt, tier)
        for i, inp in enumerate(inputs):
            if i % chunks != chunk:
                continue
            two = len(inp) > 1
            for pieces in pv.pv_piece_lists(inp, bpt, max_cuts=(0 if bpt == 10.0 else 1) if two else 2, max_pieces=3, margin=(2 * e + 2) if full else (e + 2)):
                n = len(pieces)
                arrs = pv.arrangements(n) if n < 3 else pv.arrangements_reduced(n)
                for arr in arrs:
                    if not full and n == 3 and len(arr) == 2:
                        continue
                    for painted in pv.painted_patterns(len(arr), full=False)[:2]:
                        self.run_case(inp, pv.make_pv(bpt, pieces, arr, painted), ctx, "pv")
        if inputs:
            inp = inputs[chunk % len(inputs)]
            pieces = list(pv.pv_piece_lists(inp, bpt, 2, 3, margin=e + 2))[-1]
            ctx.sample({"input": pv.jsonable(inp), "pretext": pv.jsonable(pv.make_pv(bpt, pieces, next(iter(pv.arrangements(len(pieces)))), None))})

    def replay(self, case, ctx):
        kind, inp, pvspec = case
        self.run_case(pv.tuplify(inp), (pvspec[0], pv.tuplify(pvspec[1])), ctx, kind)


CHECK = C07()
# scope added in later rounds, kept in the evidence text
CHECK.rule += ' Tagged scripts (the C01 tag scope) under the same gap oracle.'
CHECK.rule += ' At 10 bp/texel: a mapped scaffold plus sub-texel scaffolds (three 1-bp contigs, gaps of two different kinds, every ordered pair from {2 contig, 3 scaffold, 1 centromere}) present in or absent from the map.'
