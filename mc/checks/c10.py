"""
C10 - chromosome, unloc and haplotig names are unique and ranked by size.

E1: tagged PretextView-model maps whose pieces are whole input scaffolds (bpt 1,
so no placement tolerance is involved): 1-4 painted scaffolds with every size
pattern, 0-2 Unloc and 0-1 Haplotig pieces each, name tags, alternative
prefixes, an unpainted scaffold, > 9 chromosomes, and two-haplotype maps in the
alternating layout.  Reference naming model written from the statement.
"""

import itertools
import re

from mc import pv
from mc.engine import Check, h64

PREFIXES = ["SUPER_", "RL_", "chr"]
CHR_CONF = [(0, 0), (1, 0), (2, 0), (0, 1), (1, 1)]  # (unlocs, haplotigs) per painted scaffold
MAIN_LENS = [10, 20, 30]


def nat(name):
    """independent numeric-aware key: digit runs and the numerals I-IV compare by value"""
    roman = {"I": 1, "II": 2, "III": 3, "IV": 4}
    return tuple((roman[x] if x in roman else int(x)) if i % 2 else x for i, x in enumerate(re.split(r"(\d+|IV|I{1,3})", name)))


NOT_HAP = {"Painted", "Target", "Primary", "Contaminant", "Cut", "FalseDuplicate", "Haplotig", "Singleton", "Unloc"}


def hap_of(tags):
    for t in sorted(tags):
        if t not in NOT_HAP and not re.fullmatch(r"([A-Z]\d*|[IVX_]+|\d+[A-Z]+)", t):
            return t.lower()
    return None


def build_case(main_lens, confs, name_tag_at, name_tag, unpainted, main_last, hap_pattern=None, singleton_at=None, flip=False, unpainted_tag=None, target_at=()):
    """
    returns (inp, pv scaffolds, model) ; every piece is a whole single-contig input scaffold.
    model: list per Pretext scaffold of dict(main=[input names], unlocs=[...], haplotigs=[...], tag=.., hap=..)
    """
    inp = []
    scaffolds = []
    model = []
    k = 0

    def new_input(length):
        nonlocal k
        k += 1
        name = f"ctg_{k}"
        inp.append((name, (("F", name, 1, length, 1),)))
        return name, length

    for i, (ml, (nu, nh)) in enumerate(zip(main_lens, confs)):
        base = ["Painted"]
        hap = None
        if hap_pattern:
            hap = hap_pattern[i]
            base.append(hap)
        if singleton_at is not None and i == singleton_at:
            base.append("Singleton")
        if i in target_at:
            base.append("Target")
        if name_tag_at == i or (isinstance(name_tag_at, tuple) and i in name_tag_at):
            base.append(name_tag)
        pieces = []
        m = {"main": [], "unlocs": [], "haplotigs": [], "tag": name_tag if name_tag in base else None, "hap": hap}
        main_name, _ = new_input(ml)
        main_piece = (main_name, 1, ml, 1, tuple(base))
        m["main"].append(main_name)
        extra = []
        for u in range(nu):
            ul = (3, 5)[u] if not flip else (5, 3)[u]
            un, _ = new_input(ul)
            extra.append((un, 1, ul, 1, tuple(base) + ("Unloc",)))
            m["unlocs"].append(un)
        for h in range(nh):
            hl = (4, 7, 4, 9)[i % 4] if not flip else (7, 4, 9, 4)[i % 4]
            hn, _ = new_input(hl)
            extra.append((hn, 1, hl, 1, tuple(base) + ("Haplotig",)))
            m["haplotigs"].append(hn)
        pieces = extra + [main_piece] if main_last else [main_piece] + extra
        scaffolds.append((f"Scaffold_{i + 1}", tuple(pieces)))
        model.append(m)
    if unpainted:
        for j in range(unpainted):
            un, ul = new_input(6 + j)
            # (unpainted_tag: a chromosome name tag on a Pretext scaffold that is not painted)
            scaffolds.append((f"Scaffold_{len(scaffolds) + 1}", ((un, 1, ul, 1, (unpainted_tag,) if unpainted_tag else ()),)))
            model.append({"main": [un], "unlocs": [], "haplotigs": [], "tag": unpainted_tag, "hap": None, "unpainted": True})
    return tuple(inp), tuple(scaffolds), model


class C10(Check):
    pid = "C10"
    level_text = (
        "Bounded exhaustive over size patterns x Unloc/Haplotig configurations x name tags x prefixes, > 9 chromosomes, two-haplotype layouts; reference naming model from the statement."
    )
    technique = (
        "exhaustive scope enumeration on the real ScaffoldNamer/ChrNamer/sort/CSV code: every size pattern x Unloc/Haplotig configuration x "
        "name tag x prefix for 1-4 painted scaffolds, >9 chromosomes, two-haplotype alternating maps; reference naming model from the statement"
    )
    rule = (
        "case = tagged map whose pieces are whole single-contig input scaffolds (bpt 1). single haplotype: n=1..3 (4 thorough) painted scaffolds, "
        "main lengths every assignment from {10,20,30}, per scaffold (unlocs,haplotigs) from {(0,0),(1,0),(2,0),(0,1),(1,1)}, one optional name tag "
        "X|B1|W on any scaffold, prefix SUPER_|RL_|chr, 0-1 unpainted scaffold, main piece first or last, two sub-piece length patterns; a family "
        "with 11 painted scaffolds; two haplotypes: Hap1/Hap2 alternating pairs (1-3 pairs) x length assignments x optional Singleton. Oracle: "
        "names unique per assembly; autosomes == <prefix>1..n, no holes, non-increasing (chromosome+unlocs, inversion only if under both length "
        "measures); <prefix><tag>; <chr>_unloc_1..m; H_1..H_n non-increasing; output order rank/natural with unlocs after their chromosome; CSV "
        "one line per rank-1/2 scaffold, localised=no iff unloc; homologues share the number. ChrNamerError/TaggingError = did not complete. "
        "non-trivial = case with >=2 painted scaffolds or an Unloc/Haplotig piece"
        " Unloc numbering by size is asserted too (finding D10 classified exactly); chromosomes with internal gaps (size = bases in fragments); haplotig / unloc cut out of a forward or reverse contig; sub-texel contig family where a tagged piece may end with no rows (numbering over what is written, no holes)."
    )
    assumptions = [
        "pieces are whole input scaffolds at bpt 1 (no placement tolerance); a separate small family cuts one scaffold into main + Unloc",
        "'in non-increasing length' is read as covering unloc pieces and haplotigs alike; an inversion is reported only if it is one with and without gaps",
        "chromosome 'sequence length' = bases in fragments (gap rows are not sequence); haplotig 'length' is ambiguous, an inversion is reported only if it is one with and without gaps",
    ]

    def bounds(self, tier):
        return {"max_painted": 3 if tier == "quick" else 4, "main_lengths": MAIN_LENS, "two_hap_pairs": 2 if tier == "quick" else 3}

    def shards(self, tier):
        b = self.bounds(tier)
        out = []
        for n in range(1, b["max_painted"] + 1):
            for ci, _ in enumerate(itertools.product(CHR_CONF, repeat=n)):
                if ci % 5 == 0:
                    out.append(("single", n, ci // 5, tier))
        out.append(("many", 0))
        out.append(("gapped", 0))
        out.append(("tagpairs", 0))
        for pairs in range(1, b["two_hap_pairs"] + 1):
            for hp in range(3):
                for fl in MAIN_LENS:
                    out.append(("twohap", pairs, tier, hp, fl))
        out.append(("cut", 0))
        out.append(("tiny", 0))
        return out

    # ------------------------------------------------------------------
    def run_pv(self, inp, pvspec, prefix, ctx):
        self.run_case(inp, pvspec[1], prefix, ctx, bpt=pvspec[0])

    def run_case(self, inp, scaffolds, prefix, ctx, twohap=False, bpt=1.0):
        pvspec = (bpt, scaffolds)
        case = [pv.jsonable(inp), pv.jsonable(pvspec), prefix]
        ctx.cur = case
        ctx.evaluations += 1
        try:
            ba, out, _ = pv.remap(inp, pvspec, prefix=prefix)
        except Exception as e:  # noqa: BLE001
            ctx.count("did_not_complete_" + type(e).__name__)
            return
        # the same map with the prefix assigned through the property after construction, and the fused assemblies
        # requested twice from that object: names and order must be the same every time
        try:
            ba2, out2, _ = pv.remap(inp, pvspec, prefix=prefix, prefix_via_setter=True)
            first = {k: [s.name for s in a.scaffolds] for k, a in out.items()}
            via_setter = {k: [s.name for s in a.scaffolds] for k, a in out2.items()}
            if via_setter != first:
                ctx.violation("names-depend-on-how-the-prefix-was-given", case, f"constructor {first!r} setter {via_setter!r}")
            again = {k: [s.name for s in a.scaffolds] for k, a in ba2.assemblies_with_scaffolds_fused().items()}
            if again != first:
                ctx.violation("names-differ-on-second-request", case, f"first {first!r} second {again!r}")
        except Exception as e:  # noqa: BLE001
            ctx.violation(f"setter-or-second-request-raises:{type(e).__name__}", case, repr(e))
        painted = [s for s in scaffolds if any("Painted" in p[4] for p in s[1])]
        if len(painted) >= 2 or any("Unloc" in p[4] or "Haplotig" in p[4] for s in scaffolds for p in s[1]):
            ctx.nontrivial += 1
        errs = self.oracle(inp, scaffolds, prefix, ba, out, twohap, piece_clause=(bpt == 1.0))
        for klass, detail in errs[:3]:
            ctx.violation(klass, case, detail)
        ctx.outcome(h64(pv.out_spec(out)))

    def oracle(self, inp, scaffolds, prefix, ba, out, twohap, piece_clause=True):
        errs = []
        # pieces that are whole input scaffolds cannot lose rows to a neighbour
        lens = {n: pv.scaffold_length(rows) for n, rows in inp}
        whole_pieces = all(p[1] == 1 and p[2] == lens[p[0]] for _, ps in scaffolds for p in ps)
        # where did every input scaffold go
        home = {}
        for key, asm in out.items():
            names = [s.name for s in asm.scaffolds]
            if len(names) != len(set(names)):
                errs.append(("duplicate-names", f"assembly {key!r}: {names!r}"))
            for s in asm.scaffolds:
                for f in s.fragments():
                    home.setdefault(f.name, []).append((key, s, f.start, f.end))

        def size(s):
            return s.fragments_length, s.length

        def inversion(a, b):
            """a should be >= b: report only if smaller under both measures"""
            return a[0] < b[0] and a[1] < b[1]

        # haplotigs
        hasm = out.get("Haplotig")
        ntagged = sum(1 for _, ps in scaffolds for p in ps if "Haplotig" in p[4])
        hnames = [s.name for s in hasm.scaffolds] if hasm else []
        nh = len(hnames)  # H_1..H_n over the haplotigs written (a tagged piece may lose all its rows to a neighbour)
        if nh > ntagged or (whole_pieces and nh != ntagged):
            errs.append(("haplotig-count", f"{nh} haplotig scaffolds for {ntagged} tagged pieces"))
        if sorted(hnames, key=nat) != [f"H_{i + 1}" for i in range(nh)]:
            errs.append(("haplotig-names", f"{hnames!r}: not H_1..H_{nh}"))
        elif hasm:
            by = {s.name: s for s in hasm.scaffolds}
            sz = [size(by[f"H_{i + 1}"]) for i in range(nh)]
            if any(inversion(sz[i], sz[i + 1]) for i in range(nh - 1)):
                errs.append(("haplotigs-not-by-size", f"{sz!r}"))
            if hnames != sorted(hnames, key=nat):
                errs.append(("haplotig-order", f"{hnames!r}"))
        # curated assemblies
        curated = {k: a for k, a in out.items() if k not in ("Haplotig", "Contaminant", "FalseDuplicate")}
        first_hap = None
        for _, pieces in scaffolds:
            tags = {t for p in pieces for t in p[4]}
            if "Painted" in tags:
                first_hap = hap_of(tags)
                break
        numbers_by_hap = {}
        for key, asm in curated.items():
            sc = list(asm.scaffolds)
            names = [s.name for s in sc]
            autos = [s for s in sc if s.rank == 1 and "_unloc_" not in s.name]
            nums = []
            for s in autos:
                m = re.fullmatch(re.escape(prefix) + r"(\d+)([A-Z]?)", s.name)
                if not m:
                    errs.append(("autosome-name-shape", f"{key!r}: {s.name!r}"))
                else:
                    nums.append((int(m.group(1)), m.group(2), s))
            # unlocs exactly <chr>_unloc_1..m
            chrom_total = {}
            for s in sc:
                if s.rank in (1, 2) and "_unloc_" not in s.name:
                    chrom_total[s.name] = [s.fragments_length, s.length, 0]
            unl = {}
            for s in sc:
                m = re.fullmatch(r"(.+)_unloc_(\d+)", s.name)
                if m and s.rank in (1, 2):
                    unl.setdefault(m.group(1), []).append(int(m.group(2)))
                    if m.group(1) in chrom_total:
                        chrom_total[m.group(1)][0] += s.fragments_length
                        chrom_total[m.group(1)][1] += s.length
                    else:
                        errs.append(("unloc-without-chromosome", f"{key!r}: {s.name!r} among {names!r}"))
            for c, lst in unl.items():
                if sorted(lst) != list(range(1, len(lst) + 1)):
                    errs.append(("unloc-numbering", f"{key!r}: unlocs of {c} numbered {sorted(lst)!r}"))
                else:
                    by = {s.name: s for s in sc}
                    sz = [size(by[f"{c}_unloc_{i}"]) for i in range(1, len(lst) + 1)]
                    if any(inversion(sz[i], sz[i + 1]) for i in range(len(sz) - 1)):
                        # Finding D10: unlocs are ranked by the span their lookup returned, before shared contigs are
                        # discarded or cut.  The class suffix is attached iff ranking by that span (rows of the input
                        # hit by the bait, terminal gaps stripped) explains every inversion seen.
                        pre = [self.pre_trim_span(inp, scaffolds, by[f"{c}_unloc_{i}"]) for i in range(1, len(lst) + 1)]
                        explained = all(
                            pre[i] is not None and pre[i + 1] is not None and pre[i] >= pre[i + 1]
                            for i in range(len(sz) - 1)
                            if inversion(sz[i], sz[i + 1])
                        )
                        errs.append(("unlocs-not-by-size" + ("/ranked-by-span-before-trimming" if explained else ""), f"{key!r}: {c}: sizes {sz!r} spans at lookup {pre!r}"))
            if not twohap or (key or "").lower() == first_hap:
                ns = sorted(n for n, _, _ in nums)
                if ns != list(range(1, len(ns) + 1)):
                    errs.append(("autosome-numbering-holes", f"{key!r}: {[s.name for s in autos]!r}"))
                else:
                    tot = {n: chrom_total[s.name] for n, _, s in nums}
                    for i in range(1, len(ns)):
                        # "sequence length": bases of the chromosome and its unlocs; gap rows are not sequence
                        if tot[i][0] < tot[i + 1][0]:
                            errs.append(("autosomes-not-by-size", f"{key!r}: {prefix}{i} has {tot[i][:2]!r}, {prefix}{i + 1} has {tot[i + 1][:2]!r}"))
            numbers_by_hap[key] = nums
            # output order
            want = self.expected_order(sc, prefix)
            if names != want:
                errs.append(("output-order", f"{key!r}: {names!r} expected {want!r}"))
            # csv
            csv = ba.assembly_stats.chromosome_name_csv(asm)
            lines = csv.splitlines() if csv else []
            rows12 = [s for s in sc if s.rank in (1, 2)]
            if rows12 and not getattr(asm, "curated", True):
                # the command line writes the chromosome list only for assemblies flagged as curated
                errs.append(("csv-not-written-for-assembly", f"{key!r}: {len(rows12)} chromosome/unloc scaffolds but the assembly is not flagged curated"))
            if len(lines) != len(rows12):
                errs.append(("csv-line-count", f"{key!r}: {len(lines)} lines for {len(rows12)} chromosome/unloc scaffolds"))
            else:
                for ln, s in zip(lines, rows12):
                    cols = ln.split(",")
                    if cols[0] != s.name or len(cols) != 3:
                        errs.append(("csv-name", f"{ln!r} vs {s.name!r}"))
                    elif (cols[2] == "no") != ("_unloc_" in s.name) or cols[2] not in ("yes", "no"):
                        errs.append(("csv-localised", f"{ln!r}"))
                    elif not cols[1] or not (s.name == prefix + cols[1] if cols[2] == "yes" else s.name.startswith(prefix + cols[1] + "_unloc_")):
                        # the line has to say which chromosome it is: the scaffold name without the autosome prefix
                        errs.append(("csv-chromosome", f"{ln!r} (prefix {prefix!r})"))
        # name tags and unpainted names, piece by piece (only where a piece is a well-defined set of whole rows)
        target_seen = False
        for sname, pieces in scaffolds if piece_clause else ():
            tags = {t for p in pieces for t in p[4]}
            target_seen = target_seen or "Target" in tags
            if target_seen and "Target" not in tags:
                continue  # Target mode: this scaffold is contaminant (C09), the naming clauses are about curated assemblies
            ntag = next((t for t in tags if re.fullmatch(r"([A-Z]\d*|[IVX_]+|\d+[A-Z]+)", t)), None)
            for src, _s, _e, _o, pt in pieces:
                if "Haplotig" in pt:
                    continue
                lo, hi = _s, _e
                irow = dict(inp)[src][0]
                if irow[4] == -1:  # single reverse-strand contig: scaffold position p is contig coordinate end - (p - 1)
                    lo, hi = irow[3] - (_e - 1), irow[3] - (_s - 1)
                locs = [(k, sc_) for k, sc_, fs, fe in home.get(src, []) if lo <= fs and fe <= hi]
                if locs and all(x[1] is locs[0][1] for x in locs):
                    locs = locs[:1]  # a piece spanning several contigs of one scaffold: all in one output scaffold
                if len(locs) != 1:
                    errs.append(("piece-not-exactly-once", f"{src}:{_s}-{_e}: {len(locs)}"))
                    continue
                key, s = locs[0]
                if "Painted" not in tags and not ntag:
                    if s.name != src:
                        errs.append(("unpainted-renamed", f"{src} -> {s.name}"))
                elif ntag:
                    base = prefix + ntag
                    ok = s.name == base if "Unloc" not in pt else re.fullmatch(re.escape(base) + r"_unloc_\d+", s.name)
                    if not ok:
                        errs.append(("name-tag-not-applied", f"{src} in {sname} tagged {ntag}: {s.name!r}"))
                else:
                    ok = re.fullmatch(re.escape(prefix) + r"\d+[A-Z]?" + (r"_unloc_\d+" if "Unloc" in pt else ""), s.name)
                    if not ok:
                        errs.append(("painted-name-shape", f"{src} in {sname}: {s.name!r}"))
        # homologues share the number
        if twohap:
            number_of = {}
            for nums in numbers_by_hap.values():
                for n, _sfx, s in nums:
                    for f in s.fragments():
                        number_of[f.name] = n
            group = []
            groups = []
            for _sname, pieces in scaffolds:
                tags = {t for p in pieces for t in p[4]}
                if "Painted" not in tags:
                    continue
                hap = hap_of(tags)
                mains = [p[0] for p in pieces if "Unloc" not in p[4] and "Haplotig" not in p[4]]
                if group and (any(g[0] == hap for g in group) or group[-1][2]):
                    groups.append(group)
                    group = []
                group.append((hap, mains, "Singleton" in tags))
                group = [(h, m, sg) for h, m, sg in group]
            if group:
                groups.append(group)
            for g in groups:
                ns = {number_of.get(m) for _, mains, _ in g for m in mains}
                if len(ns) > 1:
                    errs.append(("homologues-do-not-share-number", f"group {[(h, m) for h, m, _ in g]!r} numbered {sorted(map(str, ns))!r}"))
        return errs

    @staticmethod
    def pre_trim_span(inp, scaffolds, out_scffld):
        """span of the input rows hit by the bait of the Unloc piece that became out_scffld (gaps at the ends stripped)"""
        frs = [(f.name, f.start, f.end) for f in out_scffld.fragments()]
        rows_by = dict(inp)
        for _, pieces in scaffolds:
            for src, s, e, _o, tags in pieces:
                if "Unloc" not in tags or src not in rows_by:
                    continue
                pos = 0
                hit = []
                mine = False
                for r in rows_by[src]:
                    ln = r[1] if r[0] == "G" else r[3] - r[2] + 1
                    a, b = pos + 1, pos + ln
                    pos = b
                    if a <= e and b >= s:
                        hit.append((r, a, b))
                        if r[0] == "F" and any(n == r[1] and fs >= r[2] and fe <= r[3] for n, fs, fe in frs):
                            mine = True
                while hit and hit[0][0][0] == "G":
                    hit.pop(0)
                while hit and hit[-1][0][0] == "G":
                    hit.pop()
                if mine and hit:
                    return hit[-1][2] - hit[0][1] + 1
        return None

    @staticmethod
    def expected_order(sc, prefix):
        """rank first; inside a rank numeric-aware name order; an unloc directly after its chromosome"""
        out = []
        for rank in (1, 2, 3):
            grp = [s.name for s in sc if s.rank == rank]
            out += sorted(grp, key=nat)
        rest = [s.name for s in sc if s.rank not in (1, 2, 3)]
        return out + rest

    # ------------------------------------------------------------------
    def run_shard(self, shard, ctx):
        kind = shard[0]
        if kind == "single":
            _, n, block, tier = shard
            confs_all = list(itertools.product(CHR_CONF, repeat=n))
            for confs in confs_all[block * 5 : block * 5 + 5]:
                for lens in itertools.product(MAIN_LENS, repeat=n):
                    for tag_at in [None, *range(n)]:
                        for tag in ("X", "B1", "W") if tag_at is not None else (None,):
                            if tag == "W" and tier == "quick":
                                continue
                            for unp in (0, 1):
                                for main_last in (False, True):
                                    for flip in (False, True):
                                        prefix = PREFIXES[(n + (tag_at or 0) + unp) % 3]
                                        inp, scaffolds, _ = build_case(lens, confs, tag_at, tag, unp, main_last, flip=flip)
                                        self.run_case(inp, scaffolds, prefix, ctx)
                                        if unp and tag_at is None and not flip:
                                            # the name tag sits on the scaffold that is not painted
                                            inp, scaffolds, _ = build_case(lens, confs, None, None, unp, main_last, unpainted_tag="Z")
                                            self.run_case(inp, scaffolds, prefix, ctx)
            if block == 0 and n in (2, 3):
                # Target mode: haplotig pieces in scaffolds with and without the Target tag, before and after the first Target
                for target_at in [t for k in (1, 2) for t in itertools.combinations(range(n), k)]:
                    for confs in itertools.product([(0, 0), (0, 1), (1, 1)], repeat=n):
                        for main_last in (False, True):
                            inp, scaffolds, _ = build_case((20, 30, 10)[:n], confs, None, None, 0, main_last, target_at=target_at)
                            self.run_case(inp, scaffolds, "SUPER_", ctx)
            inp, scaffolds, _ = build_case((20,) * n, confs_all[block * 5], None, None, 1, False)
            ctx.sample({"input": pv.jsonable(inp), "pretext": pv.jsonable((1.0, scaffolds)), "prefix": "SUPER_"})
        elif kind == "tagpairs":
            # two name-tagged chromosomes in one assembly whose tags are related (one is a prefix of the other), with unlocs
            # ... and tags made of the letters of the autosome prefix itself (U and S1 under SUPER_, R and L1 under RL_, c and h1 under chr)
            pairs = [(t1, t2, "SUPER_") for t1, t2 in (("I", "I_II"), ("X", "X1"), ("B", "B1"), ("II", "I"), ("X1", "X"))]
            pairs += [(pf[1], pf[0] + "1", pf) for pf in PREFIXES] + [(pf[0], pf[-1] + pf[0], pf) for pf in PREFIXES]
            for t1, t2, pf in pairs:
                for confs in itertools.product(CHR_CONF[:3], repeat=2):
                    for lens in ((30, 20), (20, 30)):
                        for order in (0, 1):
                            inp, scaffolds, _ = build_case(lens, confs, None, None, 0, False)
                            tags = (t1, t2) if order == 0 else (t2, t1)
                            new = []
                            for (n, ps), t in zip(scaffolds, tags):
                                new.append((n, tuple((p[0], p[1], p[2], p[3], p[4] + (t,)) for p in ps)))
                            self.run_case(inp, tuple(new), pf, ctx)
            ctx.sample({"tagpairs": "two name-tagged chromosomes with related tags (I / I_II, X / X1, B / B1)"})
        elif kind == "gapped":
            # chromosomes whose order by bases differs from their order by gapped span
            for n in (2, 3):
                for lens in itertools.product((10, 20, 30), repeat=n):
                    for gaps in itertools.product((0, 25, 200), repeat=n):
                        inp = []
                        scaffolds = []
                        for i in range(n):
                            name = f"ctg_{i + 1}"
                            half = lens[i] // 2
                            if gaps[i]:
                                rows = (("F", name, 1, half, 1), ("G", gaps[i], "scaffold"), ("F", name, half + gaps[i] + 1, lens[i] + gaps[i], 1))
                            else:
                                rows = (("F", name, 1, lens[i], 1),)
                            inp.append((name, rows))
                            scaffolds.append((f"Scaffold_{i + 1}", ((name, 1, lens[i] + gaps[i], 1, ("Painted",)),)))
                        self.run_case(tuple(inp), tuple(scaffolds), "SUPER_", ctx)
            ctx.sample({"gapped": "painted scaffolds with internal gaps of 0/25/200 so that span order != base order"})
        elif kind == "many":
            for n in (10, 11, 12):
                for pattern in ("desc", "asc", "mixed", "equal"):
                    lens = {
                        "desc": [100 - 3 * i for i in range(n)],
                        "asc": [40 + 3 * i for i in range(n)],
                        "mixed": [40 + (7 * i) % 23 for i in range(n)],
                        "equal": [50] * n,
                    }[pattern]
                    for conf in ((0, 0), (1, 0), (1, 1)):
                        for prefix in PREFIXES:
                            for tag_at in (None, 3):
                                inp, scaffolds, _ = build_case(lens, [conf] * n, tag_at, "X" if tag_at else None, 1, False)
                                self.run_case(inp, scaffolds, prefix, ctx)
            ctx.sample({"many": "10-12 painted scaffolds, 4 size patterns"})
        elif kind == "twohap":
            _, pairs, tier, hp, fl = shard
            n = 2 * pairs
            for h1, h2 in [(("Hap1", "Hap2"), ("Hap2", "Hap1"), ("Pat", "Mat"))[hp]]:
                haps = tuple(h1 if i % 2 == 0 else h2 for i in range(n))
                for lens in itertools.product(MAIN_LENS, repeat=n):
                    if lens[0] != fl:
                        continue
                    for confs in itertools.product(CHR_CONF[:3] if n > 2 else CHR_CONF, repeat=n):
                        if n > 2 and sum(1 for c in confs if c != (0, 0)) > 2:
                            continue
                        for tag_pair in [None, *range(pairs)]:
                            tag_at = None if tag_pair is None else (2 * tag_pair, 2 * tag_pair + 1)
                            for unp in (0, 1):
                                inp, scaffolds, _ = build_case(lens, confs, tag_at, "X" if tag_at else None, unp, False, hap_pattern=haps)
                                self.run_case(inp, scaffolds, "SUPER_", ctx, twohap=True)
            # Singleton: Hap1 singleton followed by a Hap1/Hap2 pair
            for lens in itertools.product(MAIN_LENS, repeat=3) if (hp == 0 and fl == MAIN_LENS[0]) else ():
                for first in (True, False):
                    hp = ("Hap1", "Hap1", "Hap2") if first else ("Hap1", "Hap2", "Hap1")
                    inp, scaffolds, _ = build_case(lens, [(0, 0)] * 3, None, None, 0, False, hap_pattern=hp, singleton_at=0 if first else 2)
                    self.run_case(inp, scaffolds, "SUPER_", ctx, twohap=True)
                    # the Singleton chromosome has an unloc, listed after or before it in its Pretext scaffold
                    sat = 0 if first else 2
                    for main_last in (False, True):
                        confs = [(1, 0) if i == sat else (0, 0) for i in range(3)]
                        inp, scaffolds, _ = build_case(lens, confs, None, None, 0, main_last, hap_pattern=hp, singleton_at=sat)
                        self.run_case(inp, scaffolds, "SUPER_", ctx, twohap=True)
            ctx.sample({"twohap": "Hap1/Hap2 alternating painted scaffolds", "pairs": pairs})
        elif kind == "cut":
            # one input scaffold cut into main + Unloc (and the reverse), sizes on both sides of the neighbours
            for l1 in (12, 20, 40):
                for cut in (4, 8, l1 - 4):
                    for l2 in (10, 30):
                        for unloc_first in (False, True):
                            inp = (("ctg_1", (("F", "ctg_1", 1, l1, 1),)), ("ctg_2", (("F", "ctg_2", 1, l2, 1),)), ("ctg_3", (("F", "ctg_3", 1, 5, 1),)))
                            a = ("ctg_1", 1, cut, 1, ("Painted", "Unloc") if unloc_first else ("Painted",))
                            b = ("ctg_1", cut + 1, l1, 1, ("Painted",) if unloc_first else ("Painted", "Unloc"))
                            c = ("ctg_3", 1, 5, 1, ("Painted", "Unloc"))
                            scaffolds = (("Scaffold_1", (a, b, c)), ("Scaffold_2", (("ctg_2", 1, l2, 1, ("Painted",)),)))
                            self.run_case(inp, scaffolds, "SUPER_", ctx)
            # a Haplotig cut out of a (forward or reverse strand) contig, ranked against whole haplotigs whose
            # sizes lie on both sides of the cut piece's true length and of the uncut contig length
            for strand in (1, -1):
                for l1 in (40,):
                    for cut in (8, 20, 32):
                        for hap_first in (False, True):
                            for h2 in (6, 14, 26, 36, 44):
                                for h3 in (10, 30):
                                    inp = (
                                        ("ctg_1", (("F", "ctg_1", 1, l1, strand),)),
                                        ("ctg_2", (("F", "ctg_2", 1, h2, 1),)),
                                        ("ctg_3", (("F", "ctg_3", 1, h3, 1),)),
                                        ("ctg_4", (("F", "ctg_4", 1, 50, 1),)),
                                    )
                                    a = ("ctg_1", 1, cut, 1, ("Painted", "Haplotig") if hap_first else ("Painted",))
                                    b = ("ctg_1", cut + 1, l1, 1, ("Painted",) if hap_first else ("Painted", "Haplotig"))
                                    scaffolds = (
                                        ("Scaffold_1", (a, b, ("ctg_2", 1, h2, 1, ("Painted", "Haplotig")))),
                                        ("Scaffold_2", (("ctg_4", 1, 50, 1, ("Painted",)), ("ctg_3", 1, h3, 1, ("Painted", "Haplotig")))),
                                    )
                                    self.run_case(inp, scaffolds, "SUPER_", ctx)
            # two Unloc pieces cut out of one contig, and a third whole Unloc whose size lies between them
            for cut in (8, 12, 20):
                for third in (10, 14, 30):
                    inp = (("ctg_1", (("F", "ctg_1", 1, 44, 1),)), ("ctg_2", (("F", "ctg_2", 1, 60, 1),)), ("ctg_3", (("F", "ctg_3", 1, third, 1),)))
                    scaffolds = (
                        (
                            "Scaffold_1",
                            (
                                ("ctg_2", 1, 60, 1, ("Painted",)),
                                ("ctg_1", 1, cut, 1, ("Painted", "Unloc")),
                                ("ctg_1", cut + 1, 44, 1, ("Painted", "Unloc")),
                                ("ctg_3", 1, third, 1, ("Painted", "Unloc")),
                            ),
                        ),
                    )
                    self.run_case(inp, scaffolds, "SUPER_", ctx)
            ctx.sample({"cut": "one scaffold cut into chromosome + Unloc / + Haplotig (both strands); two Unlocs out of one contig"})
        elif kind == "tiny":
            # pieces that can lose all their rows: the sub-texel contig family of the CLI slice (2.5 bp/texel) with a
            # Haplotig / Unloc tag on one piece, followed by one more whole haplotig / unloc
            from mc.checks import c03_cli

            for inp0, pvspec in c03_cli.cases("quick"):
                if inp0 is not c03_cli.INP2:
                    continue
                bpt, scs = pvspec
                if not any("Haplotig" in p[4] for _, ps in scs for p in ps):
                    continue
                for tag in ("Haplotig", "Unloc"):
                    if tag == "Unloc" and any(all("Haplotig" in p[4] for p in ps) for _, ps in scs):
                        continue  # an Unloc needs an untagged piece of its chromosome in the same Pretext scaffold
                    extra_in = ("ctg_x", (("F", "ctg_x", 1, 11, 1),))
                    inp = (*inp0[:1], extra_in)
                    new = []
                    for n, ps in scs:
                        new.append((n, tuple((p[0], p[1], p[2], p[3], tuple(tag if t == "Haplotig" else t for t in p[4]) + (() if "Painted" in p[4] else ("Painted",))) for p in ps)))
                    last_n, last_ps = new[-1]
                    new[-1] = (last_n, (*last_ps, ("ctg_x", 1, 10, 1, ("Painted", tag))))
                    self.run_pv(inp, (bpt, tuple(new)), "SUPER_", ctx)
            ctx.sample({"tiny": "sub-texel contig family: a tagged piece may end up with no rows; numbering must stay without holes"})

    def replay(self, case, ctx):
        inp, pvspec, prefix = case
        scaffolds = pv.tuplify(pvspec[1])
        twohap = any(hap_of(p[4]) for _, ps in scaffolds for p in ps)
        self.run_case(pv.tuplify(inp), scaffolds, prefix, ctx, twohap=twohap, bpt=pvspec[0])


CHECK = C10()
# scope added in later rounds, kept in the evidence text
CHECK.rule += ' Name-tag pairs where one tag is a prefix of the other (I / I_II, X / X_2 ...); the prefix given to the constructor or assigned afterwards must give the same names; a second request to the same BuildAssembly must repeat the first.'
CHECK.rule += ' A chromosome name tag (Z) on a Pretext scaffold that is not painted. An assembly that holds chromosomes must be flagged curated (the command line writes its chromosome list only then).'
CHECK.rule += ' Target mode (haplotig pieces in scaffolds with and without Target, before and after the first Target). A Singleton chromosome with an unloc listed before or after it.'
CHECK.rule += ' Chromosome list: the chromosome column is the scaffold name without the autosome prefix (for an unloc, of its chromosome); name tags made of the letters of the prefix itself (U / S1 under SUPER_, L / R1 under RL_, h / c1 under chr).'
