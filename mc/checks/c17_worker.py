"""
Sub-process side of C17:  python -m mc.checks.c17_worker <mode> <json args>

digest   : enumerate a remap sub-scope and print one 64-bit digest per case
cli      : run pretext-to-asm once (cwd, cache state and hash seed are set by the parent)
sequence : run a list of CLI invocations consecutively in this one process
"""

import json
import logging
import os
import sys
from pathlib import Path


def digest_scope(scope, chunk, chunks):
    """yields (case, digest) over a deterministic remap sub-scope"""
    from mc import pv
    from mc.checks import c01
    from mc.engine import h64

    chk = c01.CHECK
    out = []

    def run_case(inp, pvspec, ctx, kind):
        try:
            ba, res, _ = pv.remap(inp, pvspec)
            st = ba.assembly_stats
            d = h64((pv.out_spec(res), st.cuts, st.breaks, st.joins, [(k, [s.name for s in a.scaffolds]) for k, a in res.items()]))
        except Exception as e:  # noqa: BLE001
            d = h64(("raised", type(e).__name__))
        out.append(((kind, pv.jsonable(inp), pv.jsonable(pvspec)), d))

    chk.run_case = run_case

    class _C:
        def sample(self, *a, **k):
            pass

        def count(self, *a, **k):
            pass

    c = _C()
    if scope == "a":
        chk.scope_a(2.5, chunk, chunks, "quick", c)
    elif scope == "chain":
        chk.scope_chain(2.5, chunk, chunks, "quick", c)
        chk.scope_chain(1.0, chunk, chunks, "quick", c)
        chk.scope_chain(4.0, chunk, chunks, "quick", c)
    elif scope == "tags":
        chk.scope_tags(2.5, chunk, chunks, "quick", c)
    elif scope == "tags2":
        # pieces carrying two or three tags besides Painted (tag tuples reach the output rows of cut contigs)
        saved = c01.TAGS
        c01.TAGS = [(), ("X", "Unloc"), ("Hap1", "Haplotig"), ("B1", "Hap2", "Singleton"), ("Target", "X")]
        try:
            chk.scope_tags(2.5, chunk, chunks, "quick", c)
        finally:
            c01.TAGS = saved
    return out


class _InterruptingFile:
    """a file opened for writing whose n-th write is followed by KeyboardInterrupt (the user pressed Ctrl-C there)"""

    def __init__(self, fh, nth):
        self._fh = fh
        self._left = nth

    def write(self, data):
        n = self._fh.write(data)
        self._left -= 1
        if self._left == 0:
            self._fh.flush()
            raise KeyboardInterrupt()
        return n

    def __getattr__(self, name):
        return getattr(self._fh, name)

    def __enter__(self):
        return self

    def __exit__(self, *exc):
        self._fh.close()
        return False

    def __iter__(self):
        return iter(self._fh)


def install_interrupt(substr, nth):
    import builtins
    import io

    real = io.open

    def opener(file, mode="r", *a, **k):
        fh = real(file, mode, *a, **k)
        if isinstance(file, (str, os.PathLike)) and substr in os.fspath(file) and any(c in mode for c in "wax") and "b" not in mode:
            return _InterruptingFile(fh, nth)
        return fh

    io.open = opener
    builtins.open = opener
    return lambda: (setattr(io, "open", real), setattr(builtins, "open", real))


def main():
    mode = sys.argv[1]
    args = json.loads(sys.argv[2])
    logging.disable(logging.CRITICAL)
    if mode == "digest":
        res = digest_scope(args["scope"], args["chunk"], args["chunks"])
        only = args.get("only")
        with open(args["out"], "w") as fh:
            for i, (case, d) in enumerate(res):
                if only is None:
                    fh.write(f"{d}\n")
                elif i == only:
                    fh.write(json.dumps({"digest": d, "case": case}) + "\n")
    elif mode in ("cli", "sequence"):
        logging.disable(logging.NOTSET)
        from click.testing import CliRunner

        from tola.assembly.scripts.asm_format import cli as asm_format_cli
        from tola.assembly.scripts.pretext_to_asm import cli as p2a_cli

        runs = [args] if mode == "cli" else args["runs"]
        codes = []
        for r in runs:
            if r.get("tool") == "copy":
                # what a user does between two invocations: put another file at the same path
                import shutil

                shutil.copyfile(r["src"], r["dst"])
                for stale in r.get("remove", []):
                    if os.path.exists(stale):
                        os.unlink(stale)
                codes.append(0)
                continue
            if r.get("cwd"):
                os.chdir(r["cwd"])
            tool = p2a_cli if r.get("tool", "p2a") == "p2a" else asm_format_cli
            undo = install_interrupt(r["interrupt"]["substr"], r["interrupt"]["nth_write"]) if r.get("interrupt") else None
            try:
                res = CliRunner().invoke(tool, r["argv"])
                codes.append(res.exit_code)
            except KeyboardInterrupt:
                codes.append(130)
                continue
            finally:
                if undo:
                    undo()
            if r.get("stdout_to"):
                Path(r["stdout_to"]).write_text(res.stdout)
        print(json.dumps(codes))


if __name__ == "__main__":
    main()
