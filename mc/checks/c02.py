"""
C02 - curated layout follows the Pretext edits to within three texel widths.

E1 over PretextView-model scripts only.  Oracle (exactly the statement, on base
maps): (i) completes; (ii) piece cores collinear in one scaffold, oriented,
with the input's internal gaps; (iii) Pretext order kept within a shared
destination; (iv) deep cuts exact.
"""

import itertools
import math

from mc import pv
from mc.engine import Check, h64

SEPS = [(), (("G", 2, "scaffold"),), (("G", 200, "scaffold"),)]


def err_len(bpt):
    return 1 + math.floor(bpt)


GAP_PIECE_INPUTS = set()  # inputs explored with every orientation pattern of their three pieces


def inputs_for(bpt, tier):
    e = err_len(bpt)
    scale = max(1, round(bpt / 2.5)) if bpt > 100 else 1
    if bpt > 100:
        # a real-world resolution: coordinates in the 10^4 range make the per-base oracle ~30x more expensive, so
        # this texel size gets a small representative input set (rounding behaviour of floor(k*bpt) is what it adds)
        out = []
        for style in ("tpf", "fasta"):
            for ll in ((8 * e + 4,), (e, 8 * e + 4), (8 * e + 4, 2 * e + 1), (8 * e + 4, 8 * e + 4)):
                for st in ((1,) * len(ll), (-1,) + (1,) * (len(ll) - 1)) if style == "tpf" else ((1,) * len(ll),):
                    seps_ = ((("G", 200, "scaffold"),),) * (len(ll) - 1)
                    out.append((("scaffold_1", pv.scaffold_rows(style, "scaffold_1", ll, seps_, st)),))
        return out
    lens = [1, e, 2 * e + 1, 8 * e + 4] if tier == "thorough" else [1, e, 8 * e + 4]
    out = []
    # 200-bp separators make scaffolds of > 200 texels at 1 bp/texel (cost per case x4, cut sets x10): the thorough tier
    # keeps them for a small family only (below) and spends its budget on more lengths, texel sizes and groupings
    seps = SEPS[:2]
    if tier == "thorough":
        for style in ("tpf", "fasta"):
            for ll in ((e, 8 * e + 4), (8 * e + 4, e), (8 * e + 4, 8 * e + 4)):
                for st in ((1, 1), (1, -1)) if style == "tpf" else ((1, 1),):
                    out.append((("scaffold_1", pv.scaffold_rows(style, "scaffold_1", ll, (SEPS[2],), st)),))
    for style in ("tpf", "fasta"):
        for sc in pv.gen_scaffolds(style, "scaffold_1", 2, lens, seps):
            out.append((sc,))
    if tier == "thorough":
        for style in ("tpf",):
            for sc in pv.gen_scaffolds(style, "scaffold_1", 3, [e, 8 * e + 4], SEPS[:2]):
                if sum(1 for r in sc[1] if r[0] == "F") == 3 and sc[1][0][4] == 1 and sc[1][0][3] - sc[1][0][2] > e:
                    out.append((sc,))
    for style in ("tpf", "fasta"):
        firsts = list(pv.gen_scaffolds(style, "scaffold_1", 1, [2 * e + 1, 8 * e + 4], SEPS[:1]))
        firsts += list(pv.gen_scaffolds(style, "scaffold_1", 2, [e, 8 * e + 4], SEPS[1:2]))
        seconds = list(pv.gen_scaffolds(style, "scaffold_2", 1, [1, e, 8 * e + 4], SEPS[:1]))
        for a in firsts:
            for b in seconds:
                out.append((a, b))
    # "chain" inputs: long, short, short, long - several contigs are shared between pieces at once, so the
    # overhang resolver needs more than one round next to sub-texel contigs
    inner = [2, e, e + 1]
    for o1, o2 in ((8 * e + 4, 8 * e + 4), (2 * e + 2, 8 * e + 4)):
        for inn in itertools.product(inner, repeat=2):
            for st in ((1, 1, 1, 1), (1, -1, 1, -1)) if tier == "thorough" else ((1, 1, 1, 1),):
                out.append((("scaffold_1", pv.scaffold_rows("tpf", "scaffold_1", (o1, *inn, o2), ((),) * 3, st)),))
    # a gap longer than the contig that follows it (a cut deep inside the gap), and an abutting pair next to a
    # gapped pair (a piece whose row pattern is no palindrome)
    big = (("G", 8 * e + 6, "contig"),)
    for style in ("tpf", "fasta"):
        for l2 in (e, 2 * e + 1, 8 * e + 4):
            for st in ((1, 1), (-1, 1)) if style == "tpf" else ((1, 1),):
                out.append((("scaffold_1", pv.scaffold_rows(style, "scaffold_1", (8 * e + 4, l2), (big,), st)),))
    for st in ((1, 1, 1), (1, -1, 1)):
        out.append((("scaffold_1", pv.scaffold_rows("tpf", "scaffold_1", (2 * e + 1, e, 8 * e + 4), ((), (("G", 2, "scaffold"),)), st)),))
        out.append((("scaffold_1", pv.scaffold_rows("tpf", "scaffold_1", (8 * e + 4, e, 2 * e + 1), ((("G", 7, "contig"),), (("G", 2, "scaffold"),)), st)),))
    # a piece lying mostly in a gap wider than a texel (a single-row lookup that the trimming step skips) next to a long
    # contig, and a short last contig that the bait of the last piece overlaps by less than a texel
    for style in ("tpf", "fasta"):
        for c in sorted({1, max(1, e - 1), e}):
            for g2 in (2, e + 3):
                for st in ((1, 1, 1), (1, -1, 1)) if style == "tpf" else ((1, 1, 1),):
                    out.append(
                        (("scaffold_1", pv.scaffold_rows(style, "scaffold_1", (4 * e, 8 * e + 4, c), ((("G", 3 * e, "scaffold"),), (("G", g2, "scaffold"),)), st)),)
                    )
                    GAP_PIECE_INPUTS.add(out[-1])
    # scaffolds that begin (and end) with a gap: Pretext coordinates count the leading gap
    for style in ("tpf", "fasta"):
        for lead, trail in ((1, 0), (3 * e + 2, 0), (2, 3)):
            for st in ((1, 1), (1, -1)) if style == "tpf" else ((1, 1),):
                rows = [("G", lead, "scaffold")]
                pos = lead
                for i, ln in enumerate((8 * e + 4, 2 * e + 1)):
                    if i:
                        rows.append(("G", 2, "scaffold"))
                        pos += 2
                    rows.append(("F", f"scaffold_1.c{i + 1}", 1, ln, st[i]) if style == "tpf" else ("F", "scaffold_1", pos + 1, pos + ln, 1))
                    pos += ln
                if trail:
                    rows.append(("G", trail, "scaffold"))
                out.append((("scaffold_1", tuple(rows)),))
    _ = scale
    return out


class C02(Check):
    pid = "C02"
    level_text = (
        "Bounded exhaustive over PretextView-model scripts with geometries that have non-empty cores and deep cuts; the four clauses of the statement are evaluated on base maps with the statement's own margin (strict inequalities). Every script of the scope must complete."
    )
    technique = (
        "exhaustive scope enumeration on the real BuildAssembly over PretextView-model edit scripts with geometries that allow "
        "non-empty piece cores and deep cuts; base-map oracle for the four clauses of the statement"
    )
    rule = (
        "case = (input assembly, PretextView script). inputs (besides the families named at the end): 1 scaffold of 1-2 contigs (thorough: also 3) / 2 scaffolds, lengths "
        "{1,E,2E+1,8E+4}, separators {none, gap 2, gap 4E|200}, both strands, TPF and FASTA naming; bpt {1,2.5} (thorough + 4, 1685.845245); "
        "scripts: all cut sets on texel boundaries within 3E+2 of a row boundary or nearest a row middle, pieces >= 2 texels, <= 3 pieces, "
        "floor/ceil texel counts, all permutations x groupings x orientation patterns, painted patterns {none, all, alternating}. "
        "Oracle clauses: completes / core collinear+oriented+gaps / Pretext order / deep cut exact, margin M=3E with strict inequalities. "
        "non-trivial = case with at least one non-empty core or one deep cut evaluated"
        " Added families: chain inputs (long, short, short, long), a gap longer than the contig after it, abutting pair next to a gapped pair (non-palindromic row pattern); TPF contigs with coordinates offset by 1000*i."
    )
    assumptions = [
        "PretextView model of DESIGN.md 3.2 (coordinates floor(k*bpt), pieces >= 2 texels)",
        "cut boundaries deep inside a row are represented by the boundary nearest the row middle",
    ]
    shard_timeout = {"quick": 600, "thorough": 5400}

    def bpts(self, tier):
        return [1.0, 2.5] if tier == "quick" else [1.0, 2.5, 4.0, 1685.845245]

    def bounds(self, tier):
        return {"bpt": self.bpts(tier), "max_pieces": 3, "margin": "3*(1+floor(bpt))", "cut_boundary_window": "3E+2 + row middles"}

    def shards(self, tier):
        out = []
        chunks = 24 if tier == "quick" else 64
        for bpt in self.bpts(tier):
            for c in range(chunks):
                out.append((bpt, c, chunks, tier))
        return out

    def run_case(self, inp, pvspec, ctx):
        case = [pv.jsonable(inp), pv.jsonable(pvspec)]
        ctx.cur = case
        ctx.evaluations += 1
        bpt = pvspec[0]
        try:
            ba, out, _ = pv.remap(inp, pvspec)
        except Exception as e:  # noqa: BLE001
            where = ""
            tb = e.__traceback__
            while tb.tb_next:
                tb = tb.tb_next
            where = tb.tb_frame.f_code.co_name
            rev_cut = any(r[0] == "F" and r[4] == -1 for _, rows in inp for r in rows)
            ctx.violation(f"remap-raises:{type(e).__name__}:{where}" + (":input-has-reverse-contig" if rev_cut else ""), case, repr(e)[:600])
            return
        errs, ncores, ndeep = pv.placement_errors(inp, pvspec, out, 3 * err_len(bpt))
        if ncores or ndeep:
            ctx.nontrivial += 1
            ctx.count("cores_evaluated", ncores)
            ctx.count("deep_cuts_evaluated", ndeep)
        if ba.assembly_stats.cuts:
            ctx.count("runs_with_cut")
        for klass, detail in errs[:3]:
            ctx.violation(klass, case, detail)
        ctx.outcome(h64(pv.out_spec(out)))

    def run_shard(self, shard, ctx):
        bpt, chunk, chunks, tier = shard
        full = tier == "thorough"
        inputs = inputs_for(bpt, tier)
        e = err_len(bpt)
        for i, inp in enumerate(inputs):
            if i % chunks != chunk:
                continue
            two = len(inp) > 1
            # families added for specific shapes (>= 3 contigs, or a gap longer than the contig after it) are
            # explored with the narrow cut window and three arrangements in the quick tier
            chain = sum(1 for r in inp[0][1] if r[0] == "F") >= 3 or any(r[0] == "G" and r[1] >= 8 * e + 6 for r in inp[0][1])
            for pieces in pv.pv_piece_lists(inp, bpt, max_cuts=1 if two else 2, max_pieces=3, margin=(e + 2) if (chain and (not full or sum(1 for r in inp[0][1] if r[0] == "F") >= 3)) else (3 * e + 2)):
                n = len(pieces)
                arrs = pv.arrangements(n) if n < 3 else pv.arrangements_reduced(n)
                if chain and not full:
                    arrs = [tuple(((i, 1),) for i in range(n)), (tuple((i, 1) for i in range(n)),), tuple(((i, -1 if i % 2 else 1),) for i in reversed(range(n)))]
                if inp in GAP_PIECE_INPUTS and n == 3:
                    arrs = [tuple(((i, o[i]),) for i in range(3)) for o in itertools.product((1, -1), repeat=3)]
                    arrs += [(tuple((i, o[i]) for i in range(3)),) for o in itertools.product((1, -1), repeat=3)]
                for arr in arrs:
                    pats = pv.painted_patterns(len(arr), full=False)
                    if n == 3:
                        if not full and len(arr) == 2:
                            continue  # quick: 3-piece scripts all separate or all in one scaffold
                        pats = pats[:2]
                    for painted in pats:
                        self.run_case(inp, pv.make_pv(bpt, pieces, arr, painted), ctx)
        if inputs:
            inp = inputs[chunk % len(inputs)]
            pieces = list(pv.pv_piece_lists(inp, bpt, 2, 3, margin=3 * e + 2))[-1]
            ctx.sample({"input": pv.jsonable(inp), "pretext": pv.jsonable(pv.make_pv(bpt, pieces, next(iter(pv.arrangements(len(pieces)))), None))})

    def replay(self, case, ctx):
        inp, pvspec = case
        self.run_case(pv.tuplify(inp), (pvspec[0], pv.tuplify(pvspec[1])), ctx)


CHECK = C02()
# scope added in later rounds, kept in the evidence text
CHECK.rule += ' Gap-piece family: contigs 4E / 8E+4 / {1,E-1,E} with a 3E gap after the first and a short gap before the last, explored with every orientation pattern of the three pieces (separate and joined).'
CHECK.rule += ' Inputs that begin (and end) with a gap row (leading gap 1, 3E+2 or 2 bases).'
