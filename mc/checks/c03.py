"""
C03 - FASTA output is exactly the output AGP applied to the input FASTA.

E1 (API part): FASTA files x scaffolds of arbitrary rows x buffer sizes x
output line lengths through the real FastaIndex / FastaStream, compared with
slicing.  CLI part: pretext-to-asm on generated FASTA + PretextView-model
maps, every <name>.fa / <name>.agp pair checked against each other and
against the input.
"""

import io
import itertools

from mc import fastamodel as fm
from mc.engine import Check
from tola.assembly.assembly import Assembly
from tola.fasta.index import FastaIndex, index_fasta_file
from tola.fasta.stream import FastaStream

SEQ1 = b"ACgtRYkmBD"
SEQ2 = b"acNnHvG"
RECS = [("r1", SEQ1), ("r2", SEQ2)]
BUFFERS = [1, 2, 3, 4, 11]
LINE_LENGTHS = [1, 3, 4, 60]
WIDTHS = [1, 3, 4, 10]


def all_rows(buffers):
    rows = []
    for name, seq in RECS:
        n = len(seq)
        for a in range(1, n + 1):
            for b in range(a, n + 1):
                for strand in (1, -1, 0):
                    rows.append(("F", name, a, b, strand))
    for g in (0, 1, 3, 7, 2 * max(buffers) + 1):
        rows.append(("G", g, "scaffold"))
    return rows


class C03(Check):
    pid = "C03"
    level_text = (
        "Bounded exhaustive: every scaffold of <=2 arbitrary rows (3 over a reduced set) x widths x EOL x buffers x line lengths streamed by the real code and compared byte for byte with slicing; end to end through pretext-to-asm on 3 300 scratch-file runs."
    )
    technique = (
        "exhaustive scope enumeration on the real FastaIndex/FastaStream: all scaffolds of <= K arbitrary rows over a 2-record "
        "FASTA x widths x EOL x buffer sizes x line lengths, slicing reference; plus a CLI slice through pretext-to-asm"
    )
    rule = (
        "API case = (input width, EOL, buffer, line length, scaffold rows); rows = every interval of r1 (10 residues) / r2 (7) x strand "
        "{+,-,?} or a gap of length {0,1,3,7,2*maxbuf+1}; scaffolds = all sequences of 1..K rows (K=2; K=3 over a reduced row set), "
        "written singly and as two-scaffold assemblies. Oracle: bytes == '>name' + wrap(concat(slice | revcomp(slice) | N*len)), hence no "
        "empty / over-long line and record order == scaffold order. CLI case = (FASTA, PretextView map) through pretext-to-asm -o x.fa: "
        "each .fa equals its .agp applied to the input, names unique, AGP object length == record length. non-trivial = scaffold crosses an "
        "input line boundary or a buffer boundary or has a minus row or a gap"
        " Index built with the same small buffer as the stream. Long family: 20 000 / 9 000 residue records (LF/CRLF) at buffers 250000, 10000, 4096, 61, rows crossing 8 KiB of whole lines."
    )
    assumptions = [
        "two fixed records whose residues are pairwise distinguishable under complement; streaming is data-oblivious",
        "in-memory file object stands for the FASTA file in the API part; the CLI slice uses real files",
    ]
    shard_timeout = {"quick": 300, "thorough": 3600}

    def bounds(self, tier):
        return {"rows_full": 2, "rows_reduced": 3, "buffers": BUFFERS, "line_lengths": LINE_LENGTHS, "widths": WIDTHS, "cli_cases": "see interest.cli_runs"}

    def shards(self, tier):
        out = []
        for w in WIDTHS:
            for eol in ("LF", "CRLF", "LF+blank", "LF-nofinal", "CRLF-nofinal", "LF+hdr", "CRLF+hdr"):
                for buf in BUFFERS:
                    if eol.endswith("+hdr") and (w, buf) not in ((3, 2), (10, 11), (4, 1)):
                        continue  # header lines with a description that ends in a blank
                    if eol == "LF+blank" and (w, buf) not in ((3, 2), (10, 11), (4, 1)):
                        continue  # an empty line between the two records: a few width / buffer combinations
                    if eol.endswith("-nofinal") and buf not in (2, 11):
                        continue  # input file whose last line has no terminator: two buffers per width
                    out.append(("api", w, eol, buf, tier))
        from mc.checks import c03_cli

        out += c03_cli.shards(tier)
        for eol in ("LF", "CRLF"):
            for buf in (250_000, 10_000, 4096, 61):
                out.append(("long", eol, buf))
        return out

    def check_long(self, eol, buf, ctx):
        """records of 20 000 / 9 000 residues (more than 8 KiB of whole lines in one fetch), width 60"""
        unit = b"ACGTTGCAAGGCTTAACCGGATATCGCGAATTCCGGAAGCTTGGATCCAAGCTTACGTAc"
        seqs = {"big": (unit * 334)[:20_000], "mid": (unit[::-1] * 150)[:9_000]}
        data, _ = fm.make_fasta([(n, s, 60) for n, s in seqs.items()], b"\r\n" if eol == "CRLF" else b"\n", True)
        idx, _asm = index_fasta_file(fm.MemPath(data), buf)
        fi = FastaIndex(fm.MemPath(data), buf)
        fi.index = idx
        rows_list = [
            [("F", "big", 1, 20_000, 1)],
            [("F", "big", 1, 20_000, -1)],
            [("F", "big", 61, 19_940, 1), ("G", 8_200, "scaffold"), ("F", "mid", 1, 9_000, -1)],
            [("F", "mid", 30, 8_971, 1), ("F", "big", 8_192, 16_385, -1), ("G", 60, "scaffold"), ("F", "big", 1, 8_193, 0)],
            [("F", "big", 100, 8_400, 1), ("G", 140, "scaffold"), ("G", 180, "contig"), ("F", "mid", 1, 60, 1)],
        ]
        for rows in rows_list:
            for ll in (60, 25):
                case = ["long", eol, buf, ll, [list(r) for r in rows]]
                ctx.cur = case
                ctx.evaluations += 1
                ctx.nontrivial += 1
                asm = Assembly("x", scaffolds=[fm.build_scaffold("s1", rows)])
                out = io.BytesIO()
                FastaStream(out, fi, line_length=ll).write_assembly(asm)
                want = fm.expected_stream(seqs, [("s1", rows)], ll)
                if out.getvalue() != want:
                    got = out.getvalue()
                    k = next((i for i, (a, b) in enumerate(zip(got, want)) if a != b), min(len(got), len(want)))
                    ctx.violation("stream-bytes/long-record", case, f"lengths {len(got)} vs {len(want)}; first difference at byte {k}: {got[k:k+40]!r} vs {want[k:k+40]!r}")
        ctx.sample({"long": "20 000 / 9 000 residue records, width 60", "eol": eol, "buffer": buf})

    def make_index(self, w, eol, buf):
        data, _ = fm.make_fasta(
            [(n, s, w) for n, s in RECS],
            b"\r\n" if eol.startswith("CRLF") else b"\n",
            not eol.endswith("-nofinal"),
            desc=b" first contig \t " if eol.endswith("+hdr") else False,
            blank_between=eol.endswith("+blank"),
        )
        # the index is built with the same (small) buffer as the streaming: "all buffer sizes" covers both halves
        idx, _asm = index_fasta_file(fm.MemPath(data), buf)
        fi = FastaIndex(fm.MemPath(data), buf)
        fi.index = idx
        return fi

    def check_scaffolds(self, fi, w, eol, buf, ll, scaffolds, ctx, pre_gc=None):
        """scaffolds: list of (name, rows)"""
        case = [w, eol, buf, ll, [[n, [list(r) for r in rows]] for n, rows in scaffolds]]
        ctx.cur = case
        ctx.evaluations += 1
        if pre_gc is None:
            pre_gc = []
            if ctx.evaluations % 4 == 0 and any(r[0] == "G" and r[1] for _, rows in scaffolds for r in rows):
                pre_gc = ["n", "-"][: 1 + ctx.evaluations % 8 // 4]
        case.append(pre_gc)
        asm = Assembly("x", scaffolds=[fm.build_scaffold(n, rows) for n, rows in scaffolds])
        out = io.BytesIO()
        try:
            if pre_gc:
                # history: another stream on the same index first wrote the same assembly with another gap character
                # (chosen by the writer, per stream); the default stream that follows must still write N
                for gc in (g.encode() for g in pre_gc):
                    pre = io.BytesIO()
                    FastaStream(pre, fi, line_length=ll, gap_character=gc).write_assembly(asm)
                    if pre.getvalue() != fm.expected_stream(dict(RECS), scaffolds, ll, gapchar=gc):
                        ctx.violation("stream-bytes/gap-character", case, f"gap_character={gc!r}: got {pre.getvalue()!r}")
                        return
            FastaStream(out, fi, line_length=ll).write_assembly(asm)
        except Exception as e:  # noqa: BLE001
            ctx.violation(f"stream-raises:{type(e).__name__}", case, repr(e))
            return
        want = fm.expected_stream(dict(RECS), scaffolds, ll)
        got = out.getvalue()
        if got != want:
            ctx.violation("stream-bytes", case, f"got {got!r} expected {want!r}")
        # the AGP written beside the FASTA lists the same rows with the same lengths (checked where a scaffold ends in a
        # gap or has two gaps in a row, and on every 16th case; AGP has no zero-length gap)
        if (ctx.evaluations % 16 == 0 or any(rows and (rows[-1][0] == "G" or any(a[0] == "G" and b[0] == "G" for a, b in zip(rows, rows[1:]))) for _, rows in scaffolds)) and not any(
            r[0] == "G" and r[1] == 0 for _, rows in scaffolds for r in rows
        ):
            from mc.checks import c03_cli
            from tola.assembly.format import format_agp

            txt = io.StringIO()
            format_agp(asm, txt)
            try:
                objs = c03_cli.parse_agp_rows(txt.getvalue())
            except (IndexError, ValueError, KeyError) as e:
                ctx.violation("agp-unparseable", case, repr(e))
                return
            want_objs = [(n, [tuple(r[:3]) if r[0] == "G" else tuple(r[:5]) for r in rows]) for n, rows in scaffolds if rows]
            if objs != want_objs:
                ctx.violation("agp-rows-ne-scaffold-rows", case, f"AGP {objs!r} scaffolds {want_objs!r}")
        nt = False
        for _, rows in scaffolds:
            for r in rows:
                if r[0] == "G" or r[4] == -1 or (r[3] - r[2] + 1) > buf or (r[2] - 1) // w != (r[3] - 1) // w:
                    nt = True
        if nt:
            ctx.nontrivial += 1
        ctx.outcome(got)

    def run_shard(self, shard, ctx):
        if shard[0] == "cli":
            from mc.checks import c03_cli

            return c03_cli.run_shard(self, shard, ctx)
        if shard[0] == "long":
            return self.check_long(shard[1], shard[2], ctx)
        _, w, eol, buf, tier = shard
        fi = self.make_index(w, eol, buf)
        rows = all_rows(BUFFERS)
        # reduced row set for 3-row scaffolds: short intervals at line/buffer boundaries
        reduced = [r for r in rows if r[0] == "G" and r[1] in (0, 3)] + [
            r for r in rows if r[0] == "F" and r[1] == "r1" and r[4] != 0 and (r[2], r[3]) in ((1, 1), (3, 5), (4, 4), (2, 10), (10, 10))
        ]
        if tier == "thorough":
            reduced = [r for r in rows if r[0] == "G"] + [
                r for r in rows if r[0] == "F" and r[4] != 0 and (r[3] - r[2] in (0, 2, 6) or r[3] == len(dict(RECS)[r[1]]))
            ]
        for ll in LINE_LENGTHS:
            for r1 in rows:
                self.check_scaffolds(fi, w, eol, buf, ll, [("s1", [r1])], ctx)
                for r2 in rows:
                    self.check_scaffolds(fi, w, eol, buf, ll, [("s1", [r1, r2])], ctx)
            for trio in itertools.product(reduced, repeat=3):
                self.check_scaffolds(fi, w, eol, buf, ll, [("s1", list(trio))], ctx)
            # two scaffolds in one assembly: order and per-record wrapping reset
            for r1, r2 in itertools.product(reduced, repeat=2):
                self.check_scaffolds(fi, w, eol, buf, ll, [("s1", [r1]), ("s2", [r2, r1])], ctx)
            # whole, untouched input records as scaffolds of their own, in every order and strand combination
            wholes = [("F", n, 1, len(s), st) for n, s in RECS for st in (1, -1, 0)]
            for a, b in itertools.product(wholes, repeat=2):
                self.check_scaffolds(fi, w, eol, buf, ll, [("s1", [a]), ("s2", [b])], ctx)
                self.check_scaffolds(fi, w, eol, buf, ll, [("s1", [a]), ("s2", [b]), ("s3", [a])], ctx)
            self.check_scaffolds(fi, w, eol, buf, ll, [("empty", [])], ctx)
        ctx.sample({"width": w, "eol": eol, "buffer": buf, "line_length": 3, "scaffold": [["F", "r1", 2, 9, -1], ["G", 7, "scaffold"]]})

    def replay(self, case, ctx):
        if case and case[0] == "cli":
            from mc.checks import c03_cli

            return c03_cli.replay(self, case, ctx)
        if case and case[0] == "long":
            return self.check_long(case[1], case[2], ctx)
        w, eol, buf, ll, scaffolds, *rest = case
        fi = self.make_index(w, eol, buf)
        self.check_scaffolds(fi, w, eol, buf, ll, [(n, [tuple(r) for r in rows]) for n, rows in scaffolds], ctx, pre_gc=rest[0] if rest else [])


CHECK = C03()
# scope added in later rounds, kept in the evidence text
CHECK.rule += " API: the AGP formatted from the same assembly lists the same rows (scaffolds ending in a gap or with two gaps in a row, and every 16th case). Header lines with a description ending in blanks (three width / buffer pairs, LF and CRLF). Input files without a final newline (two buffers per width); assemblies of two and three whole-record scaffolds in every order and strand. An empty line between the two records of the input (three width / buffer pairs). CLI: every sixth case also 'restaged' - an older version of the FASTA is indexed by a first invocation, the file is rewritten and FASTA, .fai and .agp are given the same mtime."
CHECK.rule += ' History on a shared index: every fourth case with a gap is first streamed with gap_character n (and -) through another FastaStream on the same FastaIndex; the default stream that follows must write N.'
