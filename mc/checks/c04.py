"""
C04 - FASTA index and derived assembly describe the file exactly.

E1: all FASTA files from a small grammar (records x sequences over {A,n,g} x
line width x LF/CRLF x final newline x description x buffer size), generated
so that the expected faidx quintuples, run lists and every interval are known
by construction.
"""

import io
import itertools
import shutil
import tempfile
from pathlib import Path

from mc import fastamodel as fm
from mc.engine import Check
from tola.fasta.index import FastaIndex, index_fasta_file
from tola.fasta.stream import FastaStream

SYMS = b"Ang"
EXTRA_SEQS = [
    b"ACGTRYKMSWBDHVN-*acgtnryk",
    b"NNNNACGTNNNN",
    b"acgtNNacgtNN",
    b"N",
    b"ACGTACGTACGTACGT",
    b"nnnnnnnnnnnnA",
]


def seqs_upto(n):
    for ln in range(1, n + 1):
        for t in itertools.product(SYMS, repeat=ln):
            yield bytes(t)


def scratch_dir():
    base = "/dev/shm" if Path("/dev/shm").is_dir() else None
    return Path(tempfile.mkdtemp(prefix="verif_c04_", dir=base))


class C04(Check):
    pid = "C04"
    level_text = (
        "Bounded exhaustive over a FASTA grammar whose expected index, runs and intervals are known by construction (the file is generated, never parsed by the oracle); every interval of every record is fetched."
    )
    technique = (
        "exhaustive scope enumeration on the real indexer / random access / cache writer: all FASTA files of a small "
        "grammar x buffer sizes, expectations known by construction"
    )
    rule = (
        "case = (records, widths, EOL, final newline, description, buffer size). single record: every sequence of length 1..Ls over "
        "{A,n,g} x width {1,2,3,5}; two records: every pair of sequences <= Lp x widths {1,2,3}^2; plus IUPAC/punctuation sequences; "
        "x {LF,CRLF} x final newline {yes,no} x description {no,yes} x buffer {1,2,3,100}. Oracle: quintuples, every interval via "
        "sequence_bytes, derived run list, stream-back == record with non-ACGT -> N, duplicate / empty files rejected, .fai/.agp "
        "files of a real-file slice and the warm reload. non-trivial = file with a non-ACGT run, or multi-line, or CRLF, or no final newline"
        " Header variants: none, description, trailing blank, trailing tab, description with trailing blank, description after a tab. Duplicate rejection: every name sequence of 2-4 records with a repeat, with and without header-only (zero-length) records."
    )
    assumptions = [
        "well-formed = uniform width per record, no blank lines, no empty records, header token without spaces",
        "in-memory file object (BytesIO) stands for the binary file; a real-file slice on /dev/shm cross-checks it",
    ]
    shard_timeout = {"quick": 300, "thorough": 3600}

    def bounds(self, tier):
        return {
            "single_len": 7 if tier == "quick" else 9,
            "pair_len": 3 if tier == "quick" else 4,
            "widths": [1, 2, 3, 5],
            "buffers": [1, 2, 3, 100],
        }

    def shards(self, tier):
        b = self.bounds(tier)
        out = []
        for eol in ("LF", "CRLF"):
            for fnl in (True, False):
                for desc in (False, True, " ", "\t", " desc with trailing blank ", "\tdesc after a tab"):
                    for first in range(3):
                        out.append(("single", eol, fnl, desc, first, b["single_len"]))
                    out.append(("pair", eol, fnl, desc, b["pair_len"]))
                    out.append(("extra", eol, fnl, desc))
        out.append(("reject",))
        out.append(("files", "LF"))
        out.append(("files", "CRLF"))
        return out

    # ------------------------------------------------------------------
    def check_file(self, records, eol, fnl, desc, buffers, ctx, blank=False):
        """records: list of (name, seq, width)"""
        eolb = b"\r\n" if eol == "CRLF" else b"\n"
        data, exp = fm.make_fasta(records, eolb, fnl, desc.encode() if isinstance(desc, str) else desc, blank_between=blank)
        if len(records) > 1 and blank is False:
            # the same file with an empty line between the records
            self.check_file(records, eol, fnl, desc, buffers, ctx, blank=True)
        seqs = {n: s for n, s, _ in records}
        tag = "" if fnl else "/no-final-newline"
        nontriv = (
            eol == "CRLF"
            or not fnl
            or any(len(s) > w for _, s, w in records)
            or any(set(s) - set(b"ACGTacgt") for _, s, _ in records)
        )
        first = True
        for buf in buffers:
            case = [[[n, s.decode(), w] for n, s, w in records], eol, fnl, desc, buf, blank]
            ctx.cur = case
            ctx.evaluations += 1
            if nontriv:
                ctx.nontrivial += 1
            try:
                idx, asm = index_fasta_file(fm.MemPath(data), buf)
            except Exception as e:  # noqa: BLE001
                ctx.violation(f"index-raises:{type(e).__name__}{tag}", case, repr(e))
                continue
            got = {n: (i.length, i.file_offset, i.residues_per_line, i.max_line_length) for n, i in idx.items()}
            if got != exp or list(got) != list(exp):
                ctx.violation(f"quintuple{tag}", case, f"got {got!r} expected {exp!r}")
                continue
            # derived assembly
            want_rows = [(n, fm.expected_runs(n, s)) for n, s, _ in records]
            got_rows = [(s.name, fm.rows_of(s)) for s in asm.scaffolds]
            if got_rows != want_rows:
                ctx.violation(f"runs{tag}", case, f"got {got_rows!r} expected {want_rows!r}")
                continue
            if first:
                first = False
                fi = FastaIndex(fm.MemPath(data), buf)
                fi.index = idx
                bad = None
                for n, s, _ in records:
                    info = idx[n]
                    ln = len(s)
                    for a in range(1, ln + 1):
                        for b in range(a, ln + 1):
                            ctx.transitions += 1
                            if fi.sequence_bytes(info, a, b).getvalue() != s[a - 1 : b]:
                                bad = (n, a, b, fi.sequence_bytes(info, a, b).getvalue())
                                break
                        if bad:
                            break
                    if bad:
                        break
                    if fi.get_fasta_seq(n).sequence != s:
                        bad = (n, "get_fasta_seq")
                if bad:
                    ctx.violation(f"interval{tag}", case, f"{bad!r}")
                    continue
                out = io.BytesIO()
                FastaStream(out, fi).write_assembly(asm)
                want = fm.expected_stream(seqs, want_rows, 60)
                if out.getvalue() != want:
                    ctx.violation(f"stream-back{tag}", case, f"got {out.getvalue()!r} expected {want!r}")
                ctx.outcome((data, tuple(sorted(got.items()))))
        ctx.states += 1

    def run_shard(self, shard, ctx):
        kind = shard[0]
        bufs = [1, 2, 3, 100]
        if kind == "single":
            _, eol, fnl, desc, first, ln = shard
            for rest in itertools.chain([b""], seqs_upto(ln - 1)):
                seq = SYMS[first : first + 1] + rest
                for w in (1, 2, 3, 5):
                    self.check_file([("r1", seq, w)], eol, fnl, desc, bufs, ctx)
            ctx.sample({"records": [["r1", (SYMS[first : first + 1] * ln).decode(), 2]], "eol": eol, "final_newline": fnl})
        elif kind == "pair":
            _, eol, fnl, desc, ln = shard
            for s1 in seqs_upto(ln):
                for s2 in seqs_upto(ln):
                    for w1 in (1, 2, 3):
                        for w2 in (1, 2, 3):
                            self.check_file([("r1", s1, w1), ("r2", s2, w2)], eol, fnl, desc, bufs, ctx)
            ctx.sample({"records": [["r1", "An", 1], ["r2", "gA", 2]], "eol": eol, "final_newline": fnl})
        elif kind == "extra":
            _, eol, fnl, desc = shard
            for s in EXTRA_SEQS:
                for w in (1, 4, 7, 60):
                    self.check_file([("chr_1", s, w)], eol, fnl, desc, bufs + [5, 8], ctx)
                    self.check_file([("a", s, w), ("b.2", s[::-1], 3), ("c|x", b"ACGT", 4)], eol, fnl, desc, bufs + [5, 8], ctx)
        elif kind == "reject":
            self.check_reject(ctx)
        elif kind == "files":
            self.check_real_files(shard[1], ctx)

    def check_reject(self, ctx):
        for eol in (b"\n", b"\r\n"):
            for fnl in (True, False):
                # every name sequence of 2..4 records over {a,b,c} that repeats a name
                # (adjacent, separated, first/last, triple) x three sequences
                for k in (2, 3, 4):
                    for names in itertools.product("abc", repeat=k):
                        if len(set(names)) == k:
                            continue
                        # ... incl. header-only (zero-length) records in the even or in the odd positions
                        for sq, sq2 in ((b"A", b"AC"), (b"ACGT", b"AC"), (b"nn", b"AC"), (b"", b"AC"), (b"A", b""), (b"", b"")):
                            for buf in (1, 100):
                                recs = [(n, sq if i % 2 == 0 else sq2, 2) for i, n in enumerate(names)]
                                data, _ = fm.make_fasta(recs, eol, fnl)
                                case = ["reject-dup", data.decode(), buf]
                                ctx.cur = case
                                ctx.evaluations += 1
                                ctx.nontrivial += 1
                                self.reject_one(data, buf, case, "duplicate-not-rejected", ctx)
                for data in (b"", b"\n", b"ACGT" + eol, b"ACGT" + eol + b"AC" + eol):
                    for buf in (1, 100):
                        case = ["reject-empty", data.decode(), buf]
                        ctx.cur = case
                        ctx.evaluations += 1
                        ctx.nontrivial += 1
                        self.reject_one(data, buf, case, "recordless-not-rejected", ctx)
        ctx.sample({"reject": ">dup\\nA\\n>x\\nAC\\n>dup\\nA\\n"})

    def reject_one(self, data, buf, case, klass, ctx):
        try:
            r = index_fasta_file(fm.MemPath(data), buf)
        except Exception as e:  # noqa: BLE001 - "rejected with an error": any exception type
            ctx.count("rejected_with_" + type(e).__name__)
            return
        ctx.violation(klass, case, f"returned {r!r}")

    def check_real_files(self, eol, ctx):
        """.fai / .agp files as observed on disk, cold build then warm reload"""
        d = scratch_dir()
        try:
            eolb = b"\r\n" if eol == "CRLF" else b"\n"
            n = 0
            for fnl in (True, False):
                for seq in itertools.chain(seqs_upto(3), EXTRA_SEQS):
                    for w in (1, 2, 3, 60):
                        for buf in (1, 3, 100):
                            n += 1
                            recs = [("r1", seq, w), ("r2", b"gAnnA", 2)]
                            self.one_real(d / f"f{n}.fa", recs, eol, eolb, fnl, buf, ctx)
            ctx.sample({"real_file": "r1/r2 records written to /dev/shm, auto_load cold then warm", "eol": eol})
        finally:
            shutil.rmtree(d, ignore_errors=True)

    def one_real(self, path, recs, eol, eolb, fnl, buf, ctx):
        import os

        data, exp = fm.make_fasta(recs, eolb, fnl)
        tag = "" if fnl else "/no-final-newline"
        case = ["real", [[n, s.decode(), w] for n, s, w in recs], eol, fnl, buf]
        ctx.cur = case
        ctx.evaluations += 1
        ctx.nontrivial += 1
        path.write_bytes(data)
        os.utime(path, (1_000_000, 1_000_000))  # cache files written now are strictly newer
        try:
            cold = FastaIndex(path, buf)
            cold.auto_load()
            fai_text = Path(str(path) + ".fai").read_text()
            want_fai = "".join(f"{n}\t{q[0]}\t{q[1]}\t{q[2]}\t{q[3]}\n" for n, q in exp.items())
            if fai_text != want_fai:
                ctx.violation(f"fai-file{tag}", case, f"got {fai_text!r} expected {want_fai!r}")
                return
            warm = FastaIndex(path, buf)
            warm.auto_load()
            if not Path(str(path) + ".agp").exists():
                ctx.violation("agp-cache-missing", case, "")
                return
            want_rows = [(n, fm.expected_runs(n, s)) for n, s, _ in recs]
            for label, fi in (("cold", cold), ("warm", warm)):
                got = {n: (i.length, i.file_offset, i.residues_per_line, i.max_line_length) for n, i in fi.index.items()}
                if got != exp:
                    ctx.violation(f"{label}-index{tag}", case, f"got {got!r} expected {exp!r}")
                    return
                rows = [(s.name, fm.rows_of(s)) for s in fi.assembly.scaffolds]
                if rows != want_rows:
                    ctx.violation(f"{label}-assembly{tag}", case, f"got {rows!r} expected {want_rows!r}")
                    return
                for n, s, _ in recs:
                    if fi.get_fasta_seq(n).sequence != s:
                        ctx.violation(f"{label}-sequence{tag}", case, f"{n}: {fi.get_fasta_seq(n).sequence!r}")
                        return
        except Exception as e:  # noqa: BLE001
            ctx.violation(f"real-file-raises:{type(e).__name__}{tag}", case, repr(e))
        finally:
            for sfx in ("", ".fai", ".agp"):
                p = Path(str(path) + sfx)
                if p.exists():
                    p.unlink()

    def replay(self, case, ctx):
        if case[0] == "real":
            _, recs, eol, fnl, buf = case
            d = scratch_dir()
            try:
                self.one_real(d / "f.fa", [(n, s.encode(), w) for n, s, w in recs], eol, b"\r\n" if eol == "CRLF" else b"\n", fnl, buf, ctx)
            finally:
                shutil.rmtree(d, ignore_errors=True)
        elif case[0] in ("reject-dup", "reject-empty"):
            klass = "duplicate-not-rejected" if case[0] == "reject-dup" else "recordless-not-rejected"
            self.reject_one(case[1].encode(), case[2], case, klass, ctx)
        else:
            recs, eol, fnl, desc, buf = case[:5]
            blank = case[5] if len(case) > 5 else False
            self.check_file([(n, s.encode(), w) for n, s, w in recs], eol, fnl, desc, [buf], ctx, blank=bool(blank) or None)


CHECK = C04()
# scope added in later rounds, kept in the evidence text
CHECK.rule += ' Every multi-record file also with an empty line between the records.'
