"""
C13 - streaming is buffer-size independent and memory-bounded.

E1 + monitors.  (A) index / derived assembly / streamed bytes identical for
every buffer size of a set chosen relative to line width and fragment length;
(B) monitors on the real objects: every BytesIO the library creates, every
read it issues and every chunk its iterators yield is bounded by the buffer
size (plus one input line while indexing); (C) tracemalloc peak on sequences,
fragments and gaps 400 buffers long.
"""

import io
import itertools
import shutil
import tempfile
import tracemalloc
import types
from pathlib import Path

import tola.fasta.index as index_mod
import tola.fasta.simple as simple_mod
from mc import fastamodel as fm
from mc.checks import c03
from mc.engine import Check
from tola.assembly.assembly import Assembly
from tola.assembly.fragment import Fragment
from tola.assembly.gap import Gap
from tola.assembly.scaffold import Scaffold
from tola.fasta.index import FastaIndex, index_fasta_file
from tola.fasta.stream import FastaStream

MON = {"hwm": 0}


class MonBytesIO(io.BytesIO):
    def __init__(self, initial=b""):
        super().__init__(initial)
        if len(initial) > MON["hwm"]:
            MON["hwm"] = len(initial)

    def write(self, b):
        n = super().write(b)
        t = self.tell()
        if t > MON["hwm"]:
            MON["hwm"] = t
        return n


_installed = False


_ORIG = (index_mod.BytesIO, simple_mod.io)


def install_monitors():
    global _installed
    if _installed:
        return
    _installed = True
    index_mod.BytesIO = MonBytesIO
    shim = types.SimpleNamespace(BytesIO=MonBytesIO, StringIO=io.StringIO)
    simple_mod.io = shim


def remove_monitors():
    """the tracemalloc runs measure the library as it is (no Python-level BytesIO subclass in the way)"""
    global _installed
    _installed = False
    index_mod.BytesIO, simple_mod.io = _ORIG


def buffer_set(width, lengths):
    s = {1, 2, 3, 5, 7, 10**6}
    for x in [width, *lengths]:
        for d in (-1, 0, 1):
            if x + d >= 1:
                s.add(x + d)
    return sorted(s)


class NullSink:
    def __init__(self):
        self.n = 0
        self.max_write = 0
        self.h = __import__("hashlib").sha1()

    def write(self, b):
        self.n += len(b)
        self.h.update(b)
        if len(b) > self.max_write:
            self.max_write = len(b)
        return len(b)


class C13(Check):
    pid = "C13"
    level_text = (
        "Bounded exhaustive with run-time monitors on every BytesIO, read and chunk of the real code, plus tracemalloc on 400-buffer-long inputs."
    )
    technique = (
        "exhaustive scope enumeration with run-time monitors on the real indexer/streamer: all small FASTA files and all 1-2 row "
        "scaffolds x a buffer-size set relative to width and fragment length; high-water marks of every library BytesIO, read and chunk; "
        "tracemalloc peaks on 400-buffer-long inputs"
    )
    rule = (
        "(A/B index) every sequence of length 1..L over {A,n} x width {1,3,8} x {LF,CRLF} x final newline x every buffer in "
        "{1,2,3,5,7,w-1,w,w+1,len-1,len,len+1,1e6}: identical index+assembly for all buffers, seq_buffer high-water <= buffer+line; "
        "(A/B stream) every 1-2 row scaffold over the C03 row scope x width x every buffer in the set: identical bytes, every BytesIO, "
        "chunk and read <= buffer; (C) sequence/fragment(+/-)/gap 400 buffers long, buffers 4096 and 65536: tracemalloc peak <= 8*buffer+256KiB after an untraced warm-up. "
        "non-trivial = case in which the buffer is smaller than the sequence/fragment/gap (so a flush or chunk split happens)"
        " Second record wider and longer than the first; a non-N ambiguity code in the index scope; a second stream with gap character 'n' from the same index object; two-width long run; tracemalloc after an untraced warm-up, bound 8*buffer+256KiB. Many chunks: 2500-residue forward / reverse fragment and gap at buffers 1, 2, 3 (thousands of chunks) against the construction. Object path: a 3-record file (one record all N) indexed through FastaIndex(path, buffer).auto_load() for 10 buffers x widths {7,60} x LF/CRLF under the same BytesIO monitor, then re-loaded from the cache files. Long runs also through FastaIndex.auto_load (object path, cache files written) and on CRLF files; long streams are compared byte for byte (sha1) with the construction."
    )
    assumptions = [
        "BytesIO objects created by tola.fasta.index / tola.fasta.simple are the only per-residue storage (confirmed by the tracemalloc runs)",
        "memory bound for long runs is stated as 8*buffer+256KiB (Python object overhead, transient copies)",
    ]
    shard_timeout = {"quick": 300, "thorough": 3600}

    def bounds(self, tier):
        return {"index_seq_len": 8 if tier == "quick" else 11, "long_run_buffers": 400, "long_buffers": [4096, 65536]}

    def shards(self, tier):
        b = self.bounds(tier)
        out = []
        for w in (1, 3, 8):
            for eol in ("LF", "CRLF"):
                for fnl in (True, False):
                    out.append(("index", w, eol, fnl, b["index_seq_len"]))
        for w in c03.WIDTHS:
            for eol in ("LF", "CRLF"):
                for strand in (1, -1, 0):
                    out.append(("stream", w, eol, strand))
        for buf in b["long_buffers"]:
            for what in ("index", "index-2widths", "fwd", "rev", "gap", "single-line", "index-object", "fwd-crlf", "rev-crlf"):
                out.append(("long", buf, what))
        for w in (7, 60):
            for eol in ("LF", "CRLF"):
                out.append(("object", w, eol))
        for eol in ("LF", "CRLF"):
            out.append(("chunks", eol))
        return out

    # ------------------------------------------------------------------
    def check_index(self, seq, w, eol, fnl, ctx):
        install_monitors()
        eolb = b"\r\n" if eol == "CRLF" else b"\n"
        # second record wider and longer than the first: per-record state (line width, flush rhythm) must be reset
        w2 = 8 if w != 8 else 3
        data, exp = fm.make_fasta([("r1", seq, w), ("r2", seq[::-1] * 3, w2)], eolb, fnl)
        runs = [m.end() - m.start() for m in __import__("re").finditer(rb"[A]+|[nr]+", seq)]
        bufs = buffer_set(w, [len(seq), *runs])
        ref = None
        for buf in bufs:
            case = ["index", seq.decode(), w, eol, fnl, buf]
            ctx.cur = case
            ctx.evaluations += 1
            if buf < len(seq):
                ctx.nontrivial += 1
            MON["hwm"] = 0
            mon = {}
            try:
                idx, asm = index_fasta_file(fm.MemPath(data, monitor=mon), buf)
            except Exception as e:  # noqa: BLE001
                ctx.violation(f"index-raises:{type(e).__name__}", case, repr(e))
                continue
            line = max(min(w, len(seq)), min(w2, 3 * len(seq)))
            if MON["hwm"] > buf + line:
                ctx.violation("index-buffer-exceeds-bound", case, f"high-water {MON['hwm']} > buffer {buf} + line {line}")
            obs = (
                [(n, i.length, i.file_offset, i.residues_per_line, i.max_line_length) for n, i in idx.items()],
                [(s.name, fm.rows_of(s)) for s in asm.scaffolds],
            )
            if ref is None:
                ref = (buf, obs)
            elif obs != ref[1]:
                ctx.violation("index-depends-on-buffer", case, f"buffer {buf}: {obs!r} vs buffer {ref[0]}: {ref[1]!r}")
        if ref:
            ctx.outcome(ref[1])

    def check_stream_shard(self, w, eol, strand, ctx):
        install_monitors()
        rows = [r for r in c03.all_rows([11]) if r[0] == "G" or r[4] == strand]
        data, _ = fm.make_fasta([(n, s, w) for n, s in c03.RECS], b"\r\n" if eol == "CRLF" else b"\n", True)
        idx, _ = index_fasta_file(fm.MemPath(data), 100)
        fis = {}
        for r1 in rows:
            for r2 in [None, *rows]:
                rr = [r1] if r2 is None else [r1, r2]
                lens = [r[1] if r[0] == "G" else r[3] - r[2] + 1 for r in rr]
                bufs = buffer_set(w, lens)
                ref = None
                for buf in bufs:
                    if buf not in fis:
                        mon = {}
                        fi = FastaIndex(fm.MemPath(data, monitor=mon), buf)
                        fi.index = idx
                        fis[buf] = (fi, mon)
                    fi, mon = fis[buf]
                    got = self.one_stream(fi, mon, w, eol, buf, rr, lens, ctx)
                    if got is None:
                        continue
                    if ref is None:
                        ref = (buf, got)
                    elif got != ref[1]:
                        ctx.violation(
                            "stream-depends-on-buffer",
                            ["stream", w, eol, buf, [list(r) for r in rr]],
                            f"buffer {buf}: {got!r} vs buffer {ref[0]}: {ref[1]!r}",
                        )
                if ref:
                    ctx.outcome(ref[1])
        ctx.sample({"stream": [["F", "r1", 2, 9, strand], ["G", 23, "scaffold"]], "width": w, "eol": eol, "buffers": buffer_set(w, [8, 23])})

    def one_stream(self, fi, mon, w, eol, buf, rr, lens, ctx):
        case = ["stream", w, eol, buf, [list(r) for r in rr]]
        ctx.cur = case
        ctx.evaluations += 1
        if buf < max(lens):
            ctx.nontrivial += 1
        scffld = fm.build_scaffold("s", rr)
        MON["hwm"] = 0
        mon.clear()
        out = io.BytesIO()
        try:
            FastaStream(out, fi, line_length=4).write_scaffold(scffld)
            # chunk sizes as yielded by the iterators
            for row in scffld.rows:
                itr = fi.get_gap_iter(row) if isinstance(row, Gap) else fi.get_sequence_iter(row)
                total = 0
                for chunk in itr:
                    n = len(chunk.getvalue())
                    total += n
                    if n > buf:
                        ctx.violation("chunk-exceeds-buffer", case, f"chunk of {n} > buffer {buf}")
                if total != row.length:
                    ctx.violation("chunks-do-not-sum-to-row", case, f"{total} != {row.length}")
        except Exception as e:  # noqa: BLE001
            ctx.violation(f"stream-raises:{type(e).__name__}", case, repr(e))
            return None
        if MON["hwm"] > buf:
            ctx.violation("stream-bytesio-exceeds-buffer", case, f"high-water {MON['hwm']} > buffer {buf}")
        # a second stream from the same index object with another gap character
        out2 = io.BytesIO()
        try:
            FastaStream(out2, fi, line_length=4, gap_character=b"n").write_scaffold(scffld)
            want2 = fm.expected_stream(dict(c03.RECS), [("s", rr)], 4).replace(b"N", b"\0")
            seqs_n = {k: v.replace(b"N", b"\1") for k, v in c03.RECS}
            want2 = fm.expected_stream(seqs_n, [("s", rr)], 4).replace(b"N", b"n").replace(b"\1", b"N")
            # (sequence Ns are kept; only gap rows use the gap character; complement of N is N)
            if all(r[0] == "G" or r[4] != -1 for r in rr) and out2.getvalue() != want2:
                ctx.violation("gap-character-second-stream", case, f"got {out2.getvalue()!r} expected {want2!r}")
        except Exception as e:  # noqa: BLE001
            ctx.violation(f"stream-raises:{type(e).__name__}", case, repr(e))
        return out.getvalue() + b"|" + out2.getvalue()
        if mon.get("max_read", 0) > buf or mon.get("unbounded_reads"):
            ctx.violation("read-exceeds-buffer", case, f"{mon!r} buffer {buf}")
        return out.getvalue()  # (not reached)

    # ------------------------------------------------------------------
    def check_long(self, buf, what, ctx):
        case = ["long", buf, what]
        ctx.cur = case
        ctx.evaluations += 1
        ctx.nontrivial += 1
        remove_monitors()
        crlf = what.endswith("-crlf")
        what = what.replace("-crlf", "")
        eolb = b"\r\n" if crlf else b"\n"
        # one-time allocations (regex compilation, lazy imports) are taken out of the measurement by a small
        # untraced warm-up of the same code paths
        n = 400 * buf
        limit = 8 * buf + 256 * 1024  # generous: a whole-sequence read would be 400 x buf
        base = "/dev/shm" if Path("/dev/shm").is_dir() else None
        d = Path(tempfile.mkdtemp(prefix="verif_c13_", dir=base))
        try:
            path = d / "long.fa"
            unit = b"ACGTTGCAAGGCTTAACCGGATATCGCGAATTCCGGAAGCTTGGATCCAAGCTTACGTAC"
            assert len(unit) == 60
            with path.open("wb") as fh:
                fh.write(b">chr1" + eolb)
                if what == "index-2widths":
                    fh.write(b"AC\nGT\nAC\n>chrL\n")
                    wide = unit * 16 + b"ACGTACGTAC" * 4  # 1000 residues per line
                    fh.write((wide + b"\n") * (n // 1000))
                elif what == "single-line":
                    fh.write(unit * (n // 60) + b"\n")
                else:
                    line = unit + eolb
                    fh.write(line * (n // 60))
                fh.write(b">chr2" + eolb + b"ACGT" + eolb)
            total = (n // 60) * 60
            import gc

            warm = d / "warm.fa"
            warm.write_bytes(b">w\n" + b"ACGTNNACGT\n" * 40 + b"AC\n>w2\nAC\n")
            for _ in range(2):
                widx, wasm = index_fasta_file(warm, 7)
                wfi = FastaIndex(warm, 7)
                wfi.index = widx
                FastaStream(NullSink(), wfi).write_assembly(wasm)
                FastaStream(NullSink(), wfi).write_scaffold(wasm.scaffolds[0].reverse())
                wfi.fasta_fileandle.close()
            gc.collect()
            if what == "index-2widths":
                tracemalloc.start()
                idx, asm = index_fasta_file(path, buf)
                _, peak = tracemalloc.get_traced_memory()
                tracemalloc.stop()
                ctx.extra[f"peak_{what}_{buf}"] = peak
                if idx["chrL"].length != (n // 1000) * 1000 or idx["chr1"].length != 6:
                    ctx.violation("long-index-wrong", case, f"{idx!r}")
                if peak > limit + 4 * 1000:
                    ctx.violation("index-memory-exceeds-bound", case, f"peak {peak} > {limit + 4000}")
                return
            if what == "index-object":
                # the same bound when the indexing run is started through the FastaIndex object (cache files written beside the FASTA)
                wfi2 = FastaIndex(warm, 7)
                wfi2.auto_load()
                gc.collect()
                fio = FastaIndex(path, buf)
                tracemalloc.start()
                fio.auto_load()
                _, peak = tracemalloc.get_traced_memory()
                tracemalloc.stop()
                ctx.extra[f"peak_{what}_{buf}"] = peak
                if fio.index["chr1"].length != total:
                    ctx.violation("long-index-wrong", case, f"{fio.index['chr1']!r}")
                if peak > limit:
                    ctx.violation("index-memory-exceeds-bound/through-object", case, f"peak {peak} > {limit}")
                return
            if what in ("index", "single-line"):
                tracemalloc.start()
                idx, asm = index_fasta_file(path, buf)
                _, peak = tracemalloc.get_traced_memory()
                tracemalloc.stop()
                if idx["chr1"].length != total:
                    ctx.violation("long-index-wrong", case, f"{idx['chr1']!r}")
                lim = limit + (4 * total if what == "single-line" else 0)  # one input line may be held (line, buffer, copy)
                ctx.extra[f"peak_{what}_{buf}"] = peak
                if peak > lim:
                    ctx.violation("index-memory-exceeds-bound", case, f"peak {peak} > {lim}")
                return
            idx, _ = index_fasta_file(path, buf)
            fi = FastaIndex(path, buf)
            fi.index = idx
            if what == "gap":
                scffld = Scaffold("g", [Fragment("chr2", 1, 2, 1), Gap(total, "scaffold"), Fragment("chr2", 3, 4, 1)])
            else:
                scffld = Scaffold("f", [Fragment("chr1", 2, total - 1, 1 if what == "fwd" else -1)])
            sink = NullSink()
            tracemalloc.start()
            FastaStream(sink, fi).write_assembly(Assembly("a", scaffolds=[scffld]))
            _, peak = tracemalloc.get_traced_memory()
            tracemalloc.stop()
            ctx.extra[f"peak_{what}_{buf}"] = peak
            if peak > limit:
                ctx.violation("stream-memory-exceeds-bound", case, f"peak {peak} > {limit}")
            want = scffld.length + -(-scffld.length // 60) + len(scffld.name) + 2
            if sink.n != want:
                ctx.violation("long-stream-wrong-size", case, f"{sink.n} != {want}")
            elif what in ("fwd", "rev"):
                # the bytes themselves, known by construction (and therefore the same for every buffer size)
                seq = (unit * (n // 60))[1 : total - 1]
                if what == "rev":
                    seq = fm.ref_revcomp(seq)
                exp = __import__("hashlib").sha1(b">f\n" + fm.wrap(seq, 60)).hexdigest()
                if sink.h.hexdigest() != exp:
                    ctx.violation("long-stream-wrong-bytes", case, f"sha1 {sink.h.hexdigest()} expected {exp}")
            fi.fasta_fileandle.close()
        finally:
            shutil.rmtree(d, ignore_errors=True)
        ctx.sample({"long": what, "buffer": buf, "residues": n})

    def check_object(self, w, eol, ctx, only_buf=None):
        """
        the buffer size given to a FastaIndex object is the one its indexing run uses: same monitors as check_index,
        on a real file indexed through auto_load (cold), then loaded again from the cache files it wrote
        """
        install_monitors()
        eolb = b"\r\n" if eol == "CRLF" else b"\n"
        recs = [("r1", b"ACGT" * 40 + b"N" * 90 + b"acgtn" * 30, w), ("r2", b"N" * 75, w), ("r3", b"AC", w)]
        data, exp = fm.make_fasta(recs, eolb, True)
        base = "/dev/shm" if Path("/dev/shm").is_dir() else None
        d = Path(tempfile.mkdtemp(prefix="verif_c13_", dir=base))
        try:
            for buf in [only_buf] if only_buf else (1, 2, w - 1, w, w + 1, 89, 90, 91, 400, 250000):
                case = ["object", w, eol, buf]
                ctx.cur = case
                ctx.evaluations += 1
                ctx.nontrivial += 1
                path = d / f"o{buf}.fa"
                path.write_bytes(data)
                MON["hwm"] = 0
                fi = FastaIndex(path, buf)
                try:
                    fi.auto_load()
                except Exception as e:  # noqa: BLE001
                    ctx.violation(f"index-raises:{type(e).__name__}/through-object", case, repr(e))
                    continue
                if MON["hwm"] > buf + w:
                    ctx.violation("index-buffer-exceeds-bound/through-object", case, f"high-water {MON['hwm']} > buffer {buf} + line {w}")
                got = {n: (i.length, i.file_offset, i.residues_per_line, i.max_line_length) for n, i in fi.index.items()}
                rows = [(s.name, fm.rows_of(s)) for s in fi.assembly.scaffolds]
                want_rows = [(n, fm.expected_runs(n, s)) for n, s, _ in recs]
                if got != exp or rows != want_rows:
                    ctx.violation("index-depends-on-buffer/through-object", case, f"{got!r} {rows!r}")
                fi2 = FastaIndex(path, buf)
                fi2.auto_load()
                got2 = {n: (i.length, i.file_offset, i.residues_per_line, i.max_line_length) for n, i in fi2.index.items()}
                rows2 = [(s.name, fm.rows_of(s)) for s in fi2.assembly.scaffolds]
                if got2 != exp or rows2 != want_rows:
                    ctx.violation("cache-reload-differs/through-object", case, f"{got2!r} {rows2!r}")
                ctx.outcome((got, rows))
        finally:
            shutil.rmtree(d, ignore_errors=True)
        ctx.sample({"object": "FastaIndex(path, buffer).auto_load()", "width": w, "eol": eol})

    def check_many_chunks(self, eol, ctx, only=None):
        """a fragment / gap thousands of buffers long (buffers 1, 2, 3 on 2500 residues): same bytes as with one big buffer"""
        unit = b"ACGTTGCAAGGCTTAACCGGATATCGCGAATTCCGGAAGCTTGGATCCAAGCTTACGTAc"
        seq = (unit * 42)[:2500]
        data, _ = fm.make_fasta([("big", seq, 60), ("r2", b"ACGT", 4)], b"\r\n" if eol == "CRLF" else b"\n", True)
        idx, _ = index_fasta_file(fm.MemPath(data), 100)
        rows_list = [
            [("F", "big", 1, 2500, 1)],
            [("F", "big", 1, 2500, -1)],
            [("F", "big", 7, 2466, -1), ("G", 2500, "scaffold"), ("F", "r2", 1, 4, 1)],
        ]
        for rows in rows_list:
            want = fm.expected_stream({"big": seq, "r2": b"ACGT"}, [("s", rows)], 60)
            for buf in (1, 2, 3, 250000):
                case = ["chunks", eol, buf, [list(r) for r in rows]]
                if only is not None and case != only:
                    continue
                ctx.cur = case
                ctx.evaluations += 1
                ctx.nontrivial += 1
                fi = FastaIndex(fm.MemPath(data), buf)
                fi.index = idx
                out = io.BytesIO()
                try:
                    FastaStream(out, fi).write_scaffold(fm.build_scaffold("s", rows))
                except (Exception, RecursionError) as e:  # noqa: BLE001
                    ctx.violation(f"stream-raises:{type(e).__name__}/many-chunks", case, repr(e)[:300])
                    continue
                if out.getvalue() != want:
                    ctx.violation("stream-depends-on-buffer/many-chunks", case, f"{len(out.getvalue())} bytes, expected {len(want)}")
                ctx.outcome((eol, tuple(map(tuple, rows))))
        ctx.sample({"many_chunks": "2500-residue fragment / gap at buffers 1, 2, 3", "eol": eol})

    def run_shard(self, shard, ctx):
        kind = shard[0]
        if kind == "chunks":
            return self.check_many_chunks(shard[1], ctx)
        if kind == "object":
            return self.check_object(shard[1], shard[2], ctx)
        if kind == "index":
            _, w, eol, fnl, ln = shard
            for k in range(1, ln + 1):
                for t in itertools.product(b"An", repeat=k):
                    self.check_index(bytes(t), w, eol, fnl, ctx)
            # a non-N ambiguity code next to N runs (shorter strings, three symbols)
            for k in range(2, min(ln, 6) + 1):
                for t in itertools.product(b"Anr", repeat=k):
                    if b"r"[0] in t:
                        self.check_index(bytes(t), w, eol, fnl, ctx)
            ctx.sample({"index": "AAnnA", "width": w, "eol": eol, "buffers": buffer_set(w, [5, 2, 2, 1])})
        elif kind == "stream":
            self.check_stream_shard(shard[1], shard[2], shard[3], ctx)
        elif kind == "long":
            self.check_long(shard[1], shard[2], ctx)

    def replay(self, case, ctx):
        kind = case[0]
        if kind == "index":
            _, seq, w, eol, fnl, _buf = case
            self.check_index(seq.encode(), w, eol, fnl, ctx)
        elif kind == "stream":
            install_monitors()
            _, w, eol, buf, rr = case
            rr = [tuple(r) for r in rr]
            data, _ = fm.make_fasta([(n, s, w) for n, s in c03.RECS], b"\r\n" if eol == "CRLF" else b"\n", True)
            idx, _ = index_fasta_file(fm.MemPath(data), 100)
            lens = [r[1] if r[0] == "G" else r[3] - r[2] + 1 for r in rr]
            outs = {}
            for b in sorted(set(buffer_set(w, lens)) | {buf}):
                mon = {}
                fi = FastaIndex(fm.MemPath(data, monitor=mon), b)
                fi.index = idx
                outs[b] = self.one_stream(fi, mon, w, eol, b, rr, lens, ctx)
            vals = {v for v in outs.values() if v is not None}
            if len(vals) > 1:
                ctx.violation("stream-depends-on-buffer", case, repr(outs))
        elif kind == "long":
            self.check_long(case[1], case[2], ctx)
        elif kind == "object":
            self.check_object(case[1], case[2], ctx, only_buf=case[3])
        elif kind == "chunks":
            self.check_many_chunks(case[1], ctx, only=case)


CHECK = C13()
