"""
C16 - --no-clobber never alters an existing file.

E1 over configurations: for each output format x --write-log on/off x single- /
multi-assembly map, a clean run determines the output file set; then every
non-empty subset of that set is pre-created with sentinel bytes and the run is
repeated with --no-clobber (in-process CliRunner on scratch files), and with
the default --clobber as its twin.
"""

import itertools
from pathlib import Path

from mc import cli
from mc.engine import Check, h64

SENTINEL = b"SENTINEL-do-not-touch\n" * 3000  # longer than any output file, so a missing truncation shows

INP = (
    ("scaffold_1", (("F", "scaffold_1", 1, 60, 1), ("G", 20, "scaffold"), ("F", "scaffold_1", 81, 140, 1))),
    ("scaffold_2", (("F", "scaffold_2", 1, 50, 1),)),
    ("scaffold_3", (("F", "scaffold_3", 1, 30, 1),)),
)
MAPS = {
    "single": (
        2.0,
        (
            ("Scaffold_1", (("scaffold_1", 1, 140, 1, ("Painted",)),)),
            ("Scaffold_2", (("scaffold_2", 1, 50, 1, ()),)),
            ("Scaffold_3", (("scaffold_3", 1, 30, 1, ()),)),
        ),
    ),
    "multi": (
        2.0,
        (
            ("Scaffold_1", (("scaffold_1", 1, 140, 1, ("Painted",)), ("scaffold_3", 1, 30, 1, ("Painted", "Haplotig")))),
            ("Scaffold_2", (("scaffold_2", 1, 50, 1, ("Contaminant",)),)),
        ),
    ),
}
# Primary mode with a second curated haplotype: the other haplotypes are merged into an "all_haplotigs" assembly
MAPS["primary"] = (
    2.0,
    (
        ("Scaffold_1", (("scaffold_1", 1, 140, 1, ("Painted", "Hap1", "Primary")),)),
        ("Scaffold_2", (("scaffold_2", 1, 50, 1, ("Painted", "Hap2")),)),
        ("Scaffold_3", (("scaffold_3", 1, 30, 1, ("Painted", "Hap2", "Haplotig")),)),
    ),
)
FORMATS = {"FASTA": "x.fa", "AGP": "x.agp", "TPF": "x.tpf"}


class C16(Check):
    pid = "C16"
    level_text = (
        "Exhaustive over configurations: every non-empty subset of pre-existing outputs x format x log x map, through the real CLI on scratch files, with the --clobber twins."
    )
    technique = (
        "exhaustive enumeration of configurations on the real pretext-to-asm CLI (in-process, scratch files): every non-empty subset of "
        "pre-existing output files x output format x --write-log x single/multi-assembly map, with the --clobber twin of every subset"
    )
    rule = (
        "configuration = (output format FASTA|AGP|TPF, --write-log|--no-write-log, single- or multi-assembly map, subset S of the clean run's "
        "output files). For every non-empty S: files of S pre-created with a sentinel longer than any output; run with --no-clobber: exit != 0, an "
        "error (stderr or log) names a file of S, every file of S byte-identical afterwards; run with default --clobber: exit 0 and every output file "
        "== clean run (so the longer sentinel was truncated), no other file in the directory. non-trivial = subset with at least two files or not "
        "containing the first file the run writes"
        " Clobber twin run twice: default and explicit --clobber."
    )
    assumptions = ["in-process CliRunner invocation stands for the installed entry point", "one input assembly and two maps; the file set varies by format/log/map"]
    shard_timeout = {"quick": 900, "thorough": 3600}

    def bounds(self, tier):
        return {"formats": list(FORMATS), "maps": list(MAPS), "subsets": "all non-empty"}

    def shards(self, tier):
        out = []
        for fmt in FORMATS:
            for wl in (True, False):
                for mk in MAPS:
                    n = 8 if (fmt == "FASTA" and mk in ("multi", "primary")) else 2
                    for c in range(n):
                        out.append((fmt, wl, mk, c, n))
        return out

    def setup(self, d, fmt, mk):
        ind = d / "in"
        ind.mkdir()
        cli.write_fasta(ind / "asm.fa", INP)
        cli.write_pretext(ind / "map.agp", MAPS[mk])
        return ind / "asm.fa", ind / "map.agp"

    def args(self, asm, prtxt, outd, fmt, wl, clobber):
        a = ["-a", asm, "-p", prtxt, "-o", outd / FORMATS[fmt], "--write-log" if wl else "--no-write-log"]
        if clobber is False:
            a.append("--no-clobber")
        elif clobber is True:
            a.append("--clobber")
        return a

    def fresh_out(self, d, n):
        outd = d / f"out{n}"
        outd.mkdir()
        return outd

    def run_config(self, fmt, wl, mk, chunk, chunks, ctx, only_subset=None):
        import logging

        d = cli.scratch("verif_c16_")
        logging.disable(logging.NOTSET)  # the engine silences logging for speed; here the messages are observed
        try:
            asm, prtxt = self.setup(d, fmt, mk)
            outd = self.fresh_out(d, 0)
            rc, _o, err, exc = cli.invoke_p2a(self.args(asm, prtxt, outd, fmt, wl, None))
            case0 = [fmt, wl, mk]
            if rc != 0:
                ctx.violation("clean-run-fails", case0 + [[]], f"exit {rc}: {err[-400:]} {exc!r}")
                return
            clean = cli.dir_files(outd)
            names = sorted(clean)
            ctx.extra[f"files_{fmt}_{'log' if wl else 'nolog'}_{mk}"] = len(names)
            n = 0
            k = 0
            for size in range(1, len(names) + 1):
                for subset in itertools.combinations(names, size):
                    k += 1
                    if only_subset is not None:
                        if list(subset) != list(only_subset):
                            continue
                    elif k % chunks != chunk:
                        continue
                    n += 1
                    self.one_subset(d, n, asm, prtxt, fmt, wl, mk, subset, clean, ctx)
            if chunk == 0:
                ctx.sample({"format": fmt, "write_log": wl, "map": mk, "output_files": names})
        finally:
            logging.disable(logging.CRITICAL)
            cli.cleanup(d)

    def one_subset(self, d, n, asm, prtxt, fmt, wl, mk, subset, clean, ctx):
        case = [fmt, wl, mk, list(subset)]
        ctx.cur = case
        # --- no-clobber, pre-existing files filled with a sentinel, and once more as empty files
        self.no_clobber(d, f"{n}s", asm, prtxt, fmt, wl, subset, case, ctx, lambda name: SENTINEL + name.encode(), retry_clean=clean)
        self.no_clobber(d, f"{n}z", asm, prtxt, fmt, wl, subset, case, ctx, lambda name: b"")
        # ... with only errors shown (--log-level ERROR): the refusal is an error and must still name the file
        self.no_clobber(d, f"{n}e", asm, prtxt, fmt, wl, subset, case, ctx, lambda name: SENTINEL + name.encode(), extra_args=("--log-level", "ERROR"))
        # ... as files that already hold exactly what this run would write (left over from an identical run) ...
        self.no_clobber(d, f"{n}i", asm, prtxt, fmt, wl, subset, case, ctx, lambda name: clean[name])
        # ... and as symbolic links to files kept elsewhere
        self.no_clobber(d, f"{n}l", asm, prtxt, fmt, wl, subset, case, ctx, lambda name: SENTINEL + name.encode(), as_symlink=True)
        # ... and in a directory this process wrote into before (then emptied)
        self.no_clobber(d, f"{n}p", asm, prtxt, fmt, wl, subset, case, ctx, lambda name: SENTINEL + name.encode(), prerun=True)
        # --- clobber twins: the default, and --clobber given explicitly
        for explicit in (None, True):
            self.clobber_twin(d, f"{n}{'e' if explicit else 'd'}", asm, prtxt, fmt, wl, subset, clean, case, explicit, ctx)

    def no_clobber(self, d, n, asm, prtxt, fmt, wl, subset, case, ctx, content, retry_clean=None, as_symlink=False, extra_args=(), prerun=False):
        import os

        ctx.evaluations += 1
        if len(subset) > 1:
            ctx.nontrivial += 1
        outd = self.fresh_out(d, f"n{n}")
        if prerun:
            # history: this process has already written into the directory (an ordinary run), and the directory was
            # emptied afterwards; what the tool saw then must not decide what exists now
            rc0, _o, err0, _exc = cli.invoke_p2a(self.args(asm, prtxt, outd, fmt, wl, None))
            if rc0 != 0:
                ctx.violation("clean-run-fails/prerun", case, f"exit {rc0}: {err0[-300:]!r}")
            for name in cli.dir_files(outd):
                os.unlink(outd / name)
        side = None
        if as_symlink:
            side = self.fresh_out(d, f"t{n}")
        for name in subset:
            if as_symlink:
                (side / name).write_bytes(content(name))
                os.symlink(side / name, outd / name)
            else:
                (outd / name).write_bytes(content(name))
        rc, _o, err, _exc = cli.invoke_p2a([*self.args(asm, prtxt, outd, fmt, wl, False), *extra_args])
        after = cli.dir_files(outd)
        log_text = b""
        for name, data in after.items():
            if name.endswith(".log") and name not in subset:
                log_text += data
        if rc == 0:
            ctx.violation("no-clobber-run-succeeds", case, f"exit 0 with {list(subset)!r} pre-existing")
        for name in subset:
            if after.get(name) != content(name):
                ctx.violation("no-clobber-file-altered", case, f"{name} changed ({len(after.get(name, b''))} bytes, was {len(content(name))})")
                break
            if as_symlink and (not os.path.islink(outd / name) or (side / name).read_bytes() != content(name)):
                ctx.violation("no-clobber-file-altered/symlink-replaced", case, f"{name} was a symbolic link; afterwards link={os.path.islink(outd / name)}")
                break
        else:
            if rc != 0:
                said = err + log_text.decode(errors="replace")
                if not any(name in said for name in subset):
                    ctx.violation("no-clobber-error-names-no-colliding-file", case, f"stderr/log: {said[-300:]!r}")
        ctx.outcome(h64((case, rc, sorted(after))))
        if retry_clean is not None and rc != 0:
            # history: the refused run is repeated at once, same process, same directory, now allowed to overwrite
            rc2, _o, err2, _exc = cli.invoke_p2a(self.args(asm, prtxt, outd, fmt, wl, None))
            if rc2 != 0:
                ctx.violation("clobber-run-fails/after-refused-run", case, f"exit {rc2}: {err2[-300:]!r}")
            else:
                self.compare_with_clean(cli.dir_files(outd), retry_clean, outd, d, case, ctx, "/after-refused-run")
        cli.cleanup(outd)
        if side is not None:
            cli.cleanup(side)

    def compare_with_clean(self, after, clean, outd, d, case, ctx, suffix=""):
        norm = lambda files: {k: (v.replace(str(outd).encode(), b"<OUT>") if k.endswith(".log") else v) for k, v in files.items()}  # noqa: E731
        a = norm(after)
        c = {k: (v.replace(str(d / "out0").encode(), b"<OUT>") if k.endswith(".log") else v) for k, v in clean.items()}
        if sorted(a) != sorted(c):
            ctx.violation("clobber-file-set-differs" + suffix, case, f"{sorted(a)!r} vs {sorted(c)!r}")
            return
        for name in sorted(c):
            if name.endswith(".log"):
                if a[name] != c[name]:
                    ctx.violation("clobber-log-not-rewritten" + suffix, case, f"{name}: {len(a[name])} vs {len(c[name])} bytes")
                    break
            elif a[name] != c[name]:
                ctx.violation("clobber-file-not-completely-rewritten" + suffix, case, f"{name}: {len(a[name])} bytes, clean run {len(c[name])}")
                break

    def clobber_twin(self, d, n, asm, prtxt, fmt, wl, subset, clean, case, explicit, ctx):
        ctx.evaluations += 1
        outd = self.fresh_out(d, f"c{n}")
        for name in subset:
            (outd / name).write_bytes(SENTINEL + name.encode())
        rc, _o, err, _exc = cli.invoke_p2a(self.args(asm, prtxt, outd, fmt, wl, explicit))
        after = cli.dir_files(outd)
        if rc != 0:
            ctx.violation("clobber-run-fails" + ("" if explicit else "/default"), case, f"exit {rc}: {err[-300:]!r}")
        else:
            norm = lambda files: {k: (v.replace(str(outd).encode(), b"<OUT>") if k.endswith(".log") else v) for k, v in files.items()}  # noqa: E731
            a = norm(after)
            c = {k: (v.replace(str(d / "out0").encode(), b"<OUT>") if k.endswith(".log") else v) for k, v in clean.items()}
            if sorted(a) != sorted(c):
                ctx.violation("clobber-file-set-differs", case, f"{sorted(a)!r} vs {sorted(c)!r}")
            else:
                for name in sorted(c):
                    if name.endswith(".log"):
                        # 'Overwrote' vs 'Created' goes to stderr, not the log; the log must match apart from paths
                        if a[name] != c[name]:
                            ctx.violation("clobber-log-not-rewritten", case, f"{name}: {len(a[name])} vs {len(c[name])} bytes")
                            break
                    elif a[name] != c[name]:
                        ctx.violation("clobber-file-not-completely-rewritten", case, f"{name}: {len(a[name])} bytes, clean run {len(c[name])}")
                        break
        cli.cleanup(outd)

    def run_shard(self, shard, ctx):
        fmt, wl, mk, chunk, chunks = shard
        self.run_config(fmt, wl, mk, chunk, chunks, ctx)

    def replay(self, case, ctx):
        fmt, wl, mk, subset = case
        self.run_config(fmt, wl, mk, 0, 1, ctx, only_subset=subset or None)


_ = Path
CHECK = C16()
# scope added in later rounds, kept in the evidence text
CHECK.rule += ' The pre-existing files also as empty files. A third map in Primary mode with a second curated haplotype and a haplotig (merged all_haplotigs assembly). The sentinel run again with --log-level ERROR. Pre-existing files also with exactly the bytes the run would write, and as symbolic links to files elsewhere (the link must survive). History: the refused --no-clobber run is repeated at once in the same process and directory with the default --clobber: exit 0 and every file == clean run.'
CHECK.rule += ' History: every subset also in a directory that an ordinary run of the same process wrote into first (emptied before the sentinel files are placed).'
