"""
C14 - reversal and reverse-complement are involutions that commute with output.

E1: (a) complement table over all 256 byte values + all short byte strings;
(b) every scaffold of <= K rows: reverse laws; (c) stream(reverse(s)) ==
revcomp(stream(s)) over the C03 row scope for every buffer size;
(d) OverlapResult.to_scaffold() with a minus bait == reverse of the plus-bait
result over the C18 initial states.
"""

import io
import itertools

from mc import fastamodel as fm
from mc.checks import c03, c18
from mc.engine import Check
from tola.assembly.fragment import Fragment
from tola.assembly.gap import Gap
from tola.assembly.indexed_assembly import IndexedAssembly
from tola.assembly.scaffold import Scaffold
from tola.fasta import simple
from tola.fasta.stream import FastaStream

ROW_ALPHA = [
    ("F", "a", 1, 4, 1),
    ("F", "a", 5, 5, -1),
    ("F", "b", 2, 3, 0),
    ("F", "c", 1, 2, 1, ("Painted", "X")),
    ("F", "c", 7, 9, -1, ("Cut",)),
    ("F", "c", 1, 2, 1, ("Haplotig",)),  # same contig interval as the Painted/X row above, other tags
    ("G", 1, "scaffold"),
    ("G", 200, "contig"),
]

STR_ALPHA = b"AcgTNyR-"


def unwrap(data: bytes):
    """FASTA bytes -> list of (header, residues)"""
    recs = []
    for line in data.split(b"\n"):
        if line.startswith(b">"):
            recs.append([line, b""])
        elif line:
            recs[-1][1] += line
    return recs


class C14(Check):
    pid = "C14"
    level_text = (
        "Bounded exhaustive: all 256 bytes, all short strings, all scaffolds <=3 (4) rows, the C03 row scope x buffers, the C18 lookup scope."
    )
    technique = (
        "exhaustive scope enumeration on the real reverse / reverse-complement / streaming code: all 256 bytes, all short strings, all "
        "scaffolds <= K rows, the C03 row scope x buffers, the C18 lookup scope"
    )
    rule = (
        "(a) every byte value and every string of length<=4 over 8 symbols: table involution, == independent IUPAC table, case kept, "
        "non-IUPAC fixed, revcomp twice = identity; (b) every scaffold of <=K rows over 7 rows (3 strands, tags, gaps): reverse laws; "
        "(c) every 1-2 row scaffold of the C03 scope with strands +/- x widths x buffers x line lengths: stream(reverse) == revcomp(stream); "
        "(d) every lookup of the C18 scaffold x bait scope: to_scaffold with minus bait == reverse of plus. "
        "non-trivial = case with at least one fragment row (b,c,d) or an IUPAC letter (a)"
        " Byte strings of length 2^k-1, 2^k, 2^k+1 (k=8..18), 3*2^16, 250000; the original is streamed again after it was reversed; a row pair with equal interval and different tags."
    )
    assumptions = [
        "clause (c) is evaluated for rows of known strand only: a strand-0 row is streamed forward and its reversal is still strand 0, "
        "so the commute law cannot hold for it together with the involution law (see DESIGN.md, C14)",
    ]

    def bounds(self, tier):
        return {"scaffold_rows": 3 if tier == "quick" else 4, "string_len": 4 if tier == "quick" else 5, "lookup_rows": 3 if tier == "quick" else 4}

    def shards(self, tier):
        b = self.bounds(tier)
        out = [("table", b["string_len"])]
        out += [("scaffolds", i, b["scaffold_rows"]) for i in range(len(ROW_ALPHA))]
        for w in c03.WIDTHS:
            for buf in c03.BUFFERS:
                out.append(("stream", w, buf))
        out += [("lookup", i, b["lookup_rows"]) for i in range(len(c18.ALPHA))]
        out += [("alllen", buf) for buf in (32, 33, 64, 100, 250)]
        return out

    # (a)
    def check_table(self, maxlen, ctx):
        tbl = simple.IUPAC_COMPLEMENT
        for i in range(256):
            case = ["byte", i]
            ctx.cur = case
            ctx.evaluations += 1
            c = tbl[i]
            if chr(i).upper() in "ACGTRYMKSWHBVDN":
                ctx.nontrivial += 1
            if tbl[c] != i:
                ctx.violation("table-not-involution", case, f"{i}->{c}->{tbl[c]}")
            if c != fm.COMP_TABLE[i]:
                ctx.violation("table-ne-iupac", case, f"{i}: got {c} expected {fm.COMP_TABLE[i]}")
            if chr(i).isalpha() and chr(i).isupper() != chr(c).isupper():
                ctx.violation("table-case", case, f"{i}->{c}")
        for ln in range(0, maxlen + 1):
            for t in itertools.product(STR_ALPHA, repeat=ln):
                s = bytes(t)
                self.check_string(s, ctx)
        # "any byte string": every one- and two-byte string over all 256 values, and every value at the start, in the
        # middle and at the end of a longer string
        for i in range(256):
            self.check_string(bytes([i]), ctx)
            for j in range(256):
                self.check_string(bytes([i, j]), ctx)
            for s in (bytes([i]) + b"ACgtN", b"AC" + bytes([i]) + b"gtN", b"ACgtN" + bytes([i])):
                self.check_string(s, ctx)
        # long inputs: lengths around powers of two (block sizes hidden in an implementation)
        unit = b"ACGTRYKMacgtnNBDHV-x"
        for k in range(8, 19):
            for d in (-1, 0, 1):
                n = (1 << k) + d
                self.check_string((unit * (n // len(unit) + 1))[:n], ctx, label=f"len{n}")
        for n in (3 << 16, 196_609, 250_000):
            self.check_string((unit * (n // len(unit) + 1))[:n], ctx, label=f"len{n}")
        ctx.sample({"string": "AcgTNyR-", "long": "lengths 2^k-1, 2^k, 2^k+1 for k=8..18, 3*2^16, 250000"})

    def check_string(self, s, ctx, label=None):
        case = ["string", s.decode("latin1")] if label is None else ["longstring", len(s)]
        ctx.cur = case
        ctx.evaluations += 1
        ctx.nontrivial += 1
        rc = simple.reverse_complement(s)
        if simple.reverse_complement(rc) != s:
            ctx.violation("revcomp-not-involution", case, f"length {len(s)}: twice-reversed length {len(simple.reverse_complement(rc))}; {s[:40]!r} -> {rc[:40]!r}")
        if rc != fm.ref_revcomp(s):
            ctx.violation("revcomp-ne-reference", case, f"length {len(s)} -> {len(rc)}: {rc[:40]!r} != {fm.ref_revcomp(s)[:40]!r}")
        via_io = simple.revcomp_bytes_io(io.BytesIO(s)).getvalue()
        if via_io != rc:
            ctx.violation("revcomp_bytes_io", case, f"{via_io!r}")
        fs = simple.FastaSeq("n", s)
        if fs.rev_comp().sequence != rc or fs.rev_comp().rev_comp().sequence != s:
            ctx.violation("FastaSeq.rev_comp", case, "")

    # (b)
    def check_scaffold(self, rows, ctx, pos=None):
        # pos = (first row index, depth, position in the shard's enumeration): the library may keep state between the
        # scaffolds of one process (a memo), so a replay re-runs the shard's enumeration up to this position
        case = ["scaffold", [list(r) for r in rows]] + ([list(pos)] if pos else [])
        ctx.cur = case
        ctx.evaluations += 1
        if any(r[0] == "F" for r in rows):
            ctx.nontrivial += 1
        s = fm.build_scaffold("s", rows)
        s.original_name = "orig"
        s.original_tags = {"Painted"}
        before = list(s.rows)
        r1 = s.reverse()
        r2 = r1.reverse()
        if s.rows != before or any(a is not b for a, b in zip(s.rows, before)):
            ctx.violation("reverse-mutates-original", case, "")
        if len(r2.rows) != len(s.rows) or any(not self.same(a, b) for a, b in zip(r2.rows, s.rows)):
            ctx.violation("reverse-twice", case, f"{r2.rows!r} != {s.rows!r}")
        if r1.length != s.length or r1.name != s.name:
            ctx.violation("reverse-length-or-name", case, f"{r1.length} {r1.name}")
        if len(r1.rows) != len(s.rows):
            ctx.violation("reverse-row-count", case, "")
            return
        for a, b in zip(r1.rows, reversed(s.rows)):
            if isinstance(b, Gap):
                if a is not b:
                    ctx.violation("reverse-gap-row", case, f"{a!r} vs {b!r}")
            else:
                if isinstance(a, Gap) or (a.name, a.start, a.end, a.tags) != (b.name, b.start, b.end, b.tags):
                    ctx.violation("reverse-interval-or-tags", case, f"{a!r} vs {b!r}")
                elif a.strand != -b.strand:
                    ctx.violation("reverse-strand", case, f"{a!r} vs {b!r}")
        ctx.outcome(tuple(fm.rows_of(r1)))
        # histories: a reversed scaffold is edited (rows appended with and without a gap, a row added), then reversed again;
        # the result must be the reversal of what the scaffold holds now
        other = fm.build_scaffold("o", [("F", "z", 3, 9, -1, ("Cut",)), ("G", 5, "contig"), ("F", "z", 10, 12, 1)])
        for step in ("append", "append-gap", "add_row", "pop"):
            r = s.reverse()
            try:
                if step == "append":
                    r.append_scaffold(other)
                elif step == "append-gap":
                    r.append_scaffold(other, Gap(200, "scaffold"))
                elif step == "add_row":
                    r.add_row(Fragment("y", 1, 4, 1))
                elif r.rows:
                    r.rows.pop(0)
                now = list(r.rows)
                rr = r.reverse()
            except Exception as e:  # noqa: BLE001
                ctx.violation(f"reverse-after-edit-raises:{type(e).__name__}", case + [step], repr(e))
                continue
            want = [(x if isinstance(x, Gap) else (x.name, x.start, x.end, -x.strand, x.tags)) for x in reversed(now)]
            got = [(x if isinstance(x, Gap) else (x.name, x.start, x.end, x.strand, x.tags)) for x in rr.rows]
            if got != want:
                ctx.violation("reverse-after-edit", case + [step], f"got {rr.rows!r} expected reversal of {now!r}")

    @staticmethod
    def same(a, b):
        if isinstance(a, Gap) or isinstance(b, Gap):
            return a is b
        return a == b

    # (c)
    def check_stream(self, w, buf, ctx):
        seqs = dict(c03.RECS)
        rows = [r for r in c03.all_rows(c03.BUFFERS) if r[0] == "G" or r[4] != 0]
        chk3 = c03.CHECK
        for eol in ("LF", "CRLF"):
            fi = chk3.make_index(w, eol, buf)
            for ll in (3, 60):
                for r1 in rows:
                    self.one_stream(fi, seqs, w, eol, buf, ll, [r1], ctx)
                    for r2 in rows:
                        self.one_stream(fi, seqs, w, eol, buf, ll, [r1, r2], ctx)
            # fragment, gap, fragment: every gap length 0..9 against every fill state of the output line
            for ll in (3, 4):
                for alen in (1, 2, 3, 4):
                    for g in range(0, 10):
                        for last in (("F", "r2", 1, 3, 1), ("F", "r1", 2, 3, -1)):
                            self.one_stream(fi, seqs, w, eol, buf, ll, [("F", "r1", 1, alen, 1), ("G", g, "scaffold"), last], ctx)
        ctx.sample({"stream": [["F", "r1", 2, 9, -1], ["G", 3, "scaffold"]], "width": w, "buffer": buf})

    def check_all_lengths(self, buf, ctx, only=None):
        """reverse- and forward-strand fragments of every length 1..300 at buffers of 32 and more (several chunks, every remainder)"""
        unit = b"ACGTRYKMacgtnNBDHVSWacGT"
        seq = (unit * 13)[:300]
        data, _ = fm.make_fasta([("big", seq, 60)], b"\n", True)
        from tola.fasta.index import FastaIndex, index_fasta_file

        idx, _ = index_fasta_file(fm.MemPath(data), 1000)
        fi = FastaIndex(fm.MemPath(data), buf)
        fi.index = idx
        for ln in range(1, 301):
            for start in (1, 300 - ln + 1) if ln < 300 else (1,):
                rows = [("F", "big", start, start + ln - 1, -1)]
                if only is not None and [list(r) for r in rows] != only:
                    continue
                self.one_stream(fi, {"big": seq}, 60, "LF", buf, 60, rows, ctx, kind="alllen")
        ctx.sample({"all_lengths": "reverse fragments of length 1..300", "buffer": buf})

    def one_stream(self, fi, seqs, w, eol, buf, ll, rows, ctx, kind="stream"):
        case = [kind, w, eol, buf, ll, [list(r) for r in rows]]
        ctx.cur = case
        ctx.evaluations += 1
        if any(r[0] == "F" for r in rows):
            ctx.nontrivial += 1
        s = fm.build_scaffold("s", rows)
        out1, out2 = io.BytesIO(), io.BytesIO()
        FastaStream(out1, fi, line_length=ll).write_scaffold(s)
        FastaStream(out2, fi, line_length=ll).write_scaffold(s.reverse())
        out3 = io.BytesIO()
        FastaStream(out3, fi, line_length=ll).write_scaffold(s)  # the original, streamed again after it was reversed
        if out3.getvalue() != out1.getvalue():
            ctx.violation("stream-original-changed-by-reversal", case, f"{out1.getvalue()!r} then {out3.getvalue()!r}")
        (h1, a), = unwrap(out1.getvalue())
        (h2, b), = unwrap(out2.getvalue())
        if h1 != h2 or b != fm.ref_revcomp(a):
            ctx.violation("stream-reverse-ne-revcomp", case, f"fwd {a!r} rev {b!r} expected {fm.ref_revcomp(a)!r}")
        elif out2.getvalue() != h1 + b"\n" + fm.wrap(fm.ref_revcomp(a), ll):
            ctx.violation("stream-reverse-wrapping", case, f"{out2.getvalue()!r}")
        elif out1.getvalue() != fm.expected_stream(seqs, [("s", rows)], ll):
            ctx.violation("stream-ne-construction", case, f"{out1.getvalue()[:200]!r}")

    # (d)
    def check_lookup(self, first, k, ctx):
        for extra in range(0, k):
            for tail in itertools.product(c18.ALPHA, repeat=extra):
                spec = [c18.ALPHA[first]] + list(tail)
                scffld = c18.build(spec)
                ia = IndexedAssembly("t", scaffolds=[scffld])
                ln = scffld.length
                for a in range(1, ln + 3):
                    for b in range(a, ln + 3):
                        self.one_lookup(spec, ia, a, b, ctx)
        ctx.sample({"lookup": [c18.ALPHA[first]], "baits": "all, strand + and -"})

    def one_lookup(self, spec, ia, a, b, ctx):
        case = ["lookup", [list(r) for r in spec], a, b]
        ctx.cur = case
        plus = ia.find_overlaps(Fragment("s", a, b, 1))
        minus = ia.find_overlaps(Fragment("s", a, b, -1))
        if plus is None or minus is None:
            if plus is not minus:
                ctx.violation("lookup-depends-on-bait-strand", case, "")
            return
        ctx.evaluations += 1
        ctx.nontrivial += 1
        sp = plus.to_scaffold()
        sm = minus.to_scaffold()
        want = Scaffold("x", sp.rows).reverse()
        if fm.rows_of(sm) != fm.rows_of(want):
            ctx.violation("minus-bait-ne-reverse", case, f"{sm.rows!r} expected {want.rows!r}")
        if fm.rows_of(sp) != fm.rows_of(Scaffold("x", plus.rows)):
            ctx.violation("plus-bait-changed-rows", case, "")
        # history: the results are edited after to_scaffold() was asked once (cut to the bait, or a row discarded), then
        # asked again: the minus-bait scaffold must again be the reverse of the plus-bait one
        for op in (("trim_fragment", "first", False, False), ("trim_fragment", "last", False, True), ("discard_end",)):
            p2 = ia.find_overlaps(Fragment("s", a, b, 1))
            m2 = ia.find_overlaps(Fragment("s", a, b, -1))
            p2.to_scaffold()
            m2.to_scaffold()
            if not (c18.apply_op(p2, op) and c18.apply_op(m2, op)) or not p2.rows or not m2.rows:
                continue
            try:
                want2 = Scaffold("x", p2.to_scaffold().rows).reverse()
                got2 = m2.to_scaffold()
            except Exception as e:  # noqa: BLE001
                ctx.violation(f"to_scaffold-after-edit-raises:{type(e).__name__}", case + [list(op)], repr(e))
                continue
            if fm.rows_of(got2) != fm.rows_of(want2):
                ctx.violation("minus-bait-ne-reverse/after-edit", case + [list(op)], f"{got2.rows!r} expected {want2.rows!r}")

    def enumerate_scaffolds(self, i, k, ctx, upto=None):
        n = 0
        for extra in range(0, k):
            for tail in itertools.product(ROW_ALPHA, repeat=extra):
                if upto is not None and n > upto:
                    return
                if upto is not None and n < upto:
                    self.check_scaffold([ROW_ALPHA[i]] + list(tail), type(ctx)(ctx.tier, ctx.seed), pos=(i, k, n))  # history only
                else:
                    self.check_scaffold([ROW_ALPHA[i]] + list(tail), ctx, pos=(i, k, n))
                n += 1

    def run_shard(self, shard, ctx):
        kind = shard[0]
        if kind == "table":
            self.check_table(shard[1], ctx)
        elif kind == "scaffolds":
            _, i, k = shard
            self.enumerate_scaffolds(i, k, ctx)
            self.check_scaffold([], ctx)
            ctx.sample({"scaffold": [list(ROW_ALPHA[i]), list(ROW_ALPHA[5])]})
        elif kind == "stream":
            self.check_stream(shard[1], shard[2], ctx)
        elif kind == "lookup":
            self.check_lookup(shard[1], shard[2], ctx)
        elif kind == "alllen":
            self.check_all_lengths(shard[1], ctx)

    def replay(self, case, ctx):
        kind = case[0]
        if kind == "byte":
            self.check_table(0, ctx)
        elif kind == "string":
            self.check_string(case[1].encode("latin1"), ctx)
        elif kind == "longstring":
            unit = b"ACGTRYKMacgtnNBDHV-x"
            n = case[1]
            self.check_string((unit * (n // len(unit) + 1))[:n], ctx, label=f"len{n}")
        elif kind == "scaffold" and len(case) > 2:
            i, k, n = case[2]
            self.enumerate_scaffolds(i, k, ctx, upto=n)
        elif kind == "scaffold":
            self.check_scaffold([tuple(tuple(x) if isinstance(x, list) else x for x in r) for r in case[1][: len(case[1])]], ctx)
        elif kind == "alllen":
            self.check_all_lengths(case[3], ctx, only=case[5])
        elif kind == "stream":
            _, w, eol, buf, ll, rows = case
            fi = c03.CHECK.make_index(w, eol, buf)
            self.one_stream(fi, dict(c03.RECS), w, eol, buf, ll, [tuple(r) for r in rows], ctx)
        elif kind == "lookup":
            _, spec, a, b = case[:4]
            spec = [tuple(r) for r in spec]
            ia = IndexedAssembly("t", scaffolds=[c18.build(spec)])
            self.one_lookup(spec, ia, a, b, ctx)


CHECK = C14()
# scope added in later rounds, kept in the evidence text
CHECK.rule += ' Histories on one object: reverse, append_scaffold (with / without gap) or add a row, reverse again.'
CHECK.rule += ' Every 1- and 2-byte string over all 256 byte values, and every byte value at the start / middle / end of a longer string.'
CHECK.rule += ' Fragment-gap-fragment scaffolds with every gap length 0..9 at line lengths 3 and 4; reverse fragments of every length 1..300 at buffers 32, 33, 64, 100, 250; the forward stream is also compared with the construction.'
CHECK.rule += ' Lookups: to_scaffold() asked again after the result was cut to the bait or lost a row.'
