"""
C19 - overlap QC reports exactly the overlapping contig pairs.

E1: interval predicates exhaustively over all interval pairs in [1,N] x
{same, different name} x strands; the all-against-all scan over all
placements of <= K fragments into 1-2 scaffolds; asm-format --qc-overlaps CLI
slice.
"""

import io
import itertools

from mc.engine import Check, h64
from tola.assembly.assembly import Assembly
from tola.assembly.format import format_agp
from tola.assembly.fragment import Fragment
from tola.assembly.gap import Gap
from tola.assembly.scaffold import Scaffold


def intervals(n):
    return [(a, b) for a in range(1, n + 1) for b in range(a, n + 1)]


class C19(Check):
    pid = "C19"
    level_text = (
        "Bounded exhaustive: all interval pairs in a range for the predicates; all placements of <=4 fragments for the scan, scanned again after modifications; CLI slice."
    )
    technique = (
        "exhaustive scope enumeration on the real interval predicates and all-against-all scan: all interval pairs in a bounded "
        "range, all placements of <= K fragments; brute-force set of intersecting same-name pairs as reference"
    )
    rule = (
        "predicates: every ordered pair of intervals within [1,N] x {same name, different name} x 4 strand combinations: overlaps symmetric "
        "and == (intersection non-empty and same name); overlap_length == intersection size or None; abuts iff gap_between == 0; exactly one of "
        "overlap / abut / positive gap for same-named pairs, none for different names. scan: every sequence of 2..K fragments over names {a,b} x "
        "intervals within [1,M] x strand, placed in one scaffold or split over two at every point, with and without gaps: reported pairs == "
        "{unordered same-name intersecting pairs} each once, as (fragment, scaffold) references. CLI: asm-format --qc-overlaps on a slice, "
        "stderr lists the same pairs. non-trivial = pair that intersects or abuts (predicates) / assembly with at least one overlapping pair (scan)"
        " Every assembly is scanned again after add_row / add_scaffold / row removal, also as IndexedAssembly."
    )
    assumptions = ["coordinates bounded by N / M; names from {a,b}"]

    def bounds(self, tier):
        return {"N": 10 if tier == "quick" else 14, "scan_K_M": [[4, 4]] if tier == "quick" else [[4, 5], [5, 3]]}

    def shards(self, tier):
        b = self.bounds(tier)
        out = [("pred", a, b["N"]) for a in range(1, b["N"] + 1)]
        for k, m in b["scan_K_M"]:
            frs = self.frag_alpha(m)
            out += [("scan", i, k, m) for i in range(len(frs))]
        out += [("cli", i) for i in range(4)]
        out += [("keyeq", i) for i in range(len(self.frag_keyeq()))]
        out += [("bigcoord", i) for i in range(len(self.frag_big()))]
        out.append(("clifiles",))
        return out

    @staticmethod
    def frag_big():
        """intervals whose ends sit on and next to multiples of 2^16 (block sizes hidden in an implementation)"""
        pts = [1, 65535, 65536, 65537, 131071, 131072, 131073]
        return [("a", a, b, 1) for a in pts for b in pts if a <= b]

    @staticmethod
    def frag_keyeq():
        """contig names that differ but have the same natural-sort key (1 == 01 == I)"""
        return [(n, a, b, 1) for n in ("ctg_1", "ctg_01", "ctg_I") for a, b in intervals(3)]

    @staticmethod
    def frag_alpha(m):
        return [(n, a, b, s) for n in "ab" for a, b in intervals(m) for s in ((1, -1) if (a, b) in ((1, 2), (2, 3)) else (1,))]

    # ------------------------------------------------------------------
    def check_pair(self, i1, i2, same, s1, s2, ctx):
        case = ["pred", list(i1), list(i2), same, s1, s2]
        ctx.cur = case
        ctx.evaluations += 1
        f = Fragment("a", i1[0], i1[1], s1)
        g = Fragment("a" if same else "b", i2[0], i2[1], s2)
        lo, hi = max(i1[0], i2[0]), min(i1[1], i2[1])
        inter = hi - lo + 1 if hi >= lo else 0
        touching = i1[1] + 1 == i2[0] or i2[1] + 1 == i1[0]
        gap = max(i1[0], i2[0]) - min(i1[1], i2[1]) - 1  # >0 when disjoint and not abutting
        if inter or touching:
            ctx.nontrivial += 1
        ov, ov_r = f.overlaps(g), g.overlaps(f)
        if ov is not ov_r and ov != ov_r:
            ctx.violation("overlaps-asymmetric", case, f"{ov} vs {ov_r}")
        if bool(ov) != bool(same and inter):
            ctx.violation("overlaps-wrong", case, f"overlaps={ov} expected {bool(same and inter)}")
        ol, ol_r = f.overlap_length(g), g.overlap_length(f)
        want_ol = inter if (same and inter) else None
        if ol != want_ol or ol_r != want_ol:
            ctx.violation("overlap_length-wrong", case, f"{ol}/{ol_r} expected {want_ol}")
        ab, ab_r = f.abuts(g), g.abuts(f)
        if bool(ab) != bool(same and touching) or bool(ab_r) != bool(same and touching):
            ctx.violation("abuts-wrong", case, f"{ab}/{ab_r} expected {bool(same and touching)}")
        gb, gb_r = f.gap_between(g), g.gap_between(f)
        if same and not inter:
            want_gb = gap
        else:
            want_gb = None
        if gb != want_gb or gb_r != want_gb:
            ctx.violation("gap_between-wrong", case, f"{gb}/{gb_r} expected {want_gb}")
        if bool(ab) != (gb == 0):
            ctx.violation("abuts-iff-gap-zero", case, f"abuts={ab} gap_between={gb}")
        n_true = int(bool(ov)) + int(bool(ab)) + int(gb is not None and gb > 0)
        if n_true != (1 if same else 0):
            ctx.violation("not-exactly-one-of-overlap-abut-gap", case, f"overlaps={ov} abuts={ab} gap={gb}")

    # ------------------------------------------------------------------
    def layouts(self, frags):
        """one scaffold; split in two at every point; with a gap between consecutive fragments"""
        k = len(frags)
        yield [frags], False
        yield [frags], True
        for cut in range(1, k):
            yield [frags[:cut], frags[cut:]], False

    def build(self, groups, gaps):
        scaffolds = []
        objs = []
        for gi, grp in enumerate(groups):
            sc = Scaffold(f"s{gi + 1}")
            for j, (n, a, b, s) in enumerate(grp):
                if gaps and j:
                    sc.add_row(Gap(5, "scaffold"))
                fr = Fragment(n, a, b, s)
                sc.add_row(fr)
                objs.append((fr, sc))
            scaffolds.append(sc)
        return Assembly("t", scaffolds=scaffolds), objs

    def check_scan(self, frags, ctx):
        for groups, gaps in self.layouts(list(frags)):
            case = ["scan", [[list(f) for f in g] for g in groups], gaps]
            ctx.cur = case
            ctx.evaluations += 1
            asm, objs = self.build(groups, gaps)
            want = set()
            for i in range(len(objs)):
                for j in range(i + 1, len(objs)):
                    f, g = objs[i][0], objs[j][0]
                    if f.name == g.name and max(f.start, g.start) <= min(f.end, g.end):
                        want.add((i, j))
            if want:
                ctx.nontrivial += 1
            try:
                got = asm.find_overlapping_fragments()
            except Exception as e:  # noqa: BLE001
                ctx.violation(f"scan-raises:{type(e).__name__}", case, repr(e))
                continue
            idx = {id(fr): i for i, (fr, _) in enumerate(objs)}
            got_pairs = []
            bad_ref = False
            for pr in got or []:
                (f1, s1), (f2, s2) = pr
                i, j = idx.get(id(f1)), idx.get(id(f2))
                if i is None or j is None or objs[i][1] is not s1 or objs[j][1] is not s2:
                    bad_ref = True
                    break
                got_pairs.append((min(i, j), max(i, j)))
            if bad_ref:
                ctx.violation("scan-wrong-reference", case, "reported pair does not reference the assembly's own fragment/scaffold objects")
                continue
            if len(got_pairs) != len(set(got_pairs)):
                ctx.violation("scan-pair-reported-twice", case, f"{got_pairs!r}")
            if set(got_pairs) != want:
                ctx.violation("scan-wrong-pairs", case, f"got {sorted(set(got_pairs))!r} expected {sorted(want)!r}")
            ctx.outcome(h64((case, sorted(want))))
            # histories: the same Assembly object scanned again after it changed
            self.rescan(asm, objs, case, ctx)

    def brute_pairs(self, asm):
        frs = [(f, sc) for sc in asm.scaffolds for f in sc.fragments()]
        want = set()
        for i in range(len(frs)):
            for j in range(i + 1, len(frs)):
                f, g = frs[i][0], frs[j][0]
                if f.name == g.name and max(f.start, g.start) <= min(f.end, g.end):
                    want.add((id(f), id(g)))
        return want

    def scan_pairs(self, asm):
        got = asm.find_overlapping_fragments() or []
        return {(id(a[0]), id(b[0])) for a, b in got}

    def rescan(self, asm, objs, case, ctx):
        from tola.assembly.indexed_assembly import IndexedAssembly

        steps = []
        try:
            # 1. a row added to an existing scaffold
            last = asm.scaffolds[-1]
            last.add_row(Fragment("a", 1, 2, 1))
            steps.append("add_row")
            if self.scan_pairs(asm) != self.brute_pairs(asm):
                ctx.violation("rescan-after-add_row", case + steps, "scan of the modified assembly differs from brute force")
                return
            # 2. a scaffold added
            asm.add_scaffold(Scaffold("extra", [Fragment("b", 2, 3, -1)]))
            steps.append("add_scaffold")
            if self.scan_pairs(asm) != self.brute_pairs(asm):
                ctx.violation("rescan-after-add_scaffold", case + steps, "scan of the modified assembly differs from brute force")
                return
            # 3. a row removed
            asm.scaffolds[0].rows.pop(0)
            steps.append("pop_row")
            if self.scan_pairs(asm) != self.brute_pairs(asm):
                ctx.violation("rescan-after-row-removed", case + steps, "scan of the modified assembly differs from brute force")
                return
            # 4. the indexed flavour of the assembly, scanned, extended, scanned again
            ia = IndexedAssembly.new_from_assembly(asm)
            if self.scan_pairs(ia) != self.brute_pairs(ia):
                ctx.violation("indexed-scan", case + steps, "IndexedAssembly scan differs from brute force")
                return
            ia.add_scaffold(Scaffold("extra2", [Fragment("a", 2, 2, 1)]))
            if self.scan_pairs(ia) != self.brute_pairs(ia):
                ctx.violation("indexed-rescan-after-add_scaffold", case + steps, "IndexedAssembly scan differs from brute force")
        except Exception as e:  # noqa: BLE001
            ctx.violation(f"rescan-raises:{type(e).__name__}", case + steps, repr(e))

    def check_cli(self, part, ctx):
        from click.testing import CliRunner

        from tola.assembly.scripts.asm_format import cli

        runner = CliRunner()
        frs = self.frag_alpha(3)
        n = 0
        for frags in itertools.product(frs, repeat=3):
            n += 1
            if n % 4 != part:
                continue
            groups = [list(frags[:2]), list(frags[2:])]
            case = ["cli", [[list(f) for f in g] for g in groups]]
            ctx.cur = case
            ctx.evaluations += 1
            asm, objs = self.build(groups, True)
            out = io.StringIO()
            format_agp(asm, out)
            # every output format in turn (the scan must not depend on what is written afterwards)
            ofmt = ("AGP", "TPF", "STR", "REPR")[(n // 4) % 4]
            case.append(ofmt)
            try:
                r = runner.invoke(cli, ["--qc-overlaps", "-f", ofmt], input=out.getvalue())
                err = r.stderr
            except ValueError:
                r = runner.invoke(cli, ["--qc-overlaps", "-f", ofmt], input=out.getvalue())
                err = r.output
            want = []
            for i in range(len(objs)):
                for j in range(i + 1, len(objs)):
                    f, g = objs[i][0], objs[j][0]
                    if f.name == g.name and max(f.start, g.start) <= min(f.end, g.end):
                        want.append(f"\nOverlap:\n{objs[i][1].name} {f}\n{objs[j][1].name} {g}\n")
            if want:
                ctx.nontrivial += 1
            blocks = err.split("\nOverlap:\n")[1:] if "Overlap:" in err else []
            got = sorted("\nOverlap:\n" + b.rstrip("\n") + "\n" for b in blocks)
            if r.exit_code != 0:
                ctx.violation("cli-exit", case, f"exit {r.exit_code}")
            elif got != sorted(want):
                ctx.violation("cli-overlap-report", case, f"got {got!r} expected {sorted(want)!r}")
            elif bool(want) != ("Overlaps detected in assembly" in err):
                ctx.violation("cli-overlap-banner", case, err[:300])
        ctx.sample({"cli": "asm-format --qc-overlaps", "fragments": [list(f) for f in frs[:3]]})

    def run_shard(self, shard, ctx):
        kind = shard[0]
        if kind == "pred":
            _, a, n = shard
            for b in range(a, n + 1):
                for i2 in intervals(n):
                    for same in (True, False):
                        for s1, s2 in itertools.product((1, -1), repeat=2):
                            self.check_pair((a, b), i2, same, s1, s2, ctx)
            ctx.sample({"pred": [[a, n], [1, 2]], "same_name": True})
        elif kind == "scan":
            _, i, k, m = shard
            frs = self.frag_alpha(m)
            for kk in range(1, k):
                for tail in itertools.product(frs, repeat=kk):
                    self.check_scan((frs[i], *tail), ctx)
            ctx.sample({"scan": [list(frs[i]), list(frs[0])], "layouts": "one scaffold +-gaps, split in two at every point"})
        elif kind == "cli":
            self.check_cli(shard[1], ctx)
        elif kind == "keyeq":
            frs = self.frag_keyeq()
            for tail in itertools.product(frs, repeat=2):
                self.check_scan((frs[shard[1]], *tail), ctx)
            ctx.sample({"scan": "three fragments over contig names ctg_1 / ctg_01 / ctg_I (equal natural-sort keys)"})
        elif kind == "clifiles":
            self.check_cli_files(ctx)
        elif kind == "bigcoord":
            frs = self.frag_big()
            for other in frs:
                self.check_scan((frs[shard[1]], other), ctx)
                self.check_scan((frs[shard[1]], ("b", 1, 70000, 1), other), ctx)
            ctx.sample({"scan": "intervals with ends in {1, 2^16-1, 2^16, 2^16+1, 2^17-1, 2^17, 2^17+1}"})

    def check_cli_files(self, ctx, only=None):
        """several input files in one asm-format --qc-overlaps invocation: same file name in different directories, --name"""
        import shutil
        import tempfile
        from pathlib import Path

        from click.testing import CliRunner

        from tola.assembly.scripts.asm_format import cli

        asms = {
            "A": [[("a", 1, 3, 1), ("a", 2, 4, 1)]],
            "B": [[("b", 1, 2, 1), ("a", 5, 6, -1)], [("b", 2, 2, 1)]],
            "C": [[("a", 1, 2, 1), ("b", 1, 2, 1)]],
            "D": [[("a", 7, 9, 1)], [("a", 9, 9, 1), ("a", 8, 8, -1)]],
        }
        base = "/dev/shm" if Path("/dev/shm").is_dir() else None
        d = Path(tempfile.mkdtemp(prefix="verif_c19_", dir=base))
        runner = CliRunner()
        try:
            for k in (2, 3):
                for sel in itertools.permutations(sorted(asms), k):
                    for naming in ("same-file-name", "distinct-file-names", "--name"):
                        case = ["clifiles", list(sel), naming]
                        if only is not None and case != only:
                            continue
                        ctx.cur = case
                        ctx.evaluations += 1
                        paths, want = [], []
                        for i, key in enumerate(sel):
                            asm, objs = self.build(asms[key], True)
                            sub_ = d / f"d{i}"
                            sub_.mkdir(exist_ok=True)
                            pth = sub_ / ("x.agp" if naming != "distinct-file-names" else f"x{i}.agp")
                            with pth.open("w") as fh:
                                format_agp(asm, fh)
                            paths.append(str(pth))
                            for a in range(len(objs)):
                                for b in range(a + 1, len(objs)):
                                    f, g = objs[a][0], objs[b][0]
                                    if f.name == g.name and max(f.start, g.start) <= min(f.end, g.end):
                                        want.append(f"{objs[a][1].name} {f}\n{objs[b][1].name} {g}")
                        if want:
                            ctx.nontrivial += 1
                        argv = ["--qc-overlaps", *paths] + (["--name", "n"] if naming == "--name" else [])
                        r = runner.invoke(cli, argv)
                        try:
                            err = r.stderr
                        except ValueError:
                            err = r.output
                        blocks = err.split("\nOverlap:\n")[1:] if "Overlap:" in err else []
                        got = sorted(b.strip("\n").split("\n\n")[0] for b in blocks)
                        if r.exit_code != 0:
                            ctx.violation("cli-exit/several-files", case, f"exit {r.exit_code}: {err[-300:]!r}")
                        elif got != sorted(want):
                            ctx.violation("cli-overlap-report/several-files", case, f"got {got!r} expected {sorted(want)!r}")
                        ctx.outcome(h64((case, sorted(want))))
            ctx.sample({"clifiles": "2-3 AGP files per asm-format --qc-overlaps invocation", "namings": ["same-file-name", "distinct-file-names", "--name"]})
        finally:
            shutil.rmtree(d, ignore_errors=True)

    def replay(self, case, ctx):
        kind = case[0]
        if kind == "pred":
            _, i1, i2, same, s1, s2 = case
            self.check_pair(tuple(i1), tuple(i2), same, s1, s2, ctx)
        elif kind == "scan":
            frags = [tuple(f) for g in case[1] for f in g]
            self.check_scan(frags, ctx)
        elif kind == "cli":
            for part in range(4):
                self.check_cli(part, ctx)
        elif kind == "clifiles":
            self.check_cli_files(ctx, only=case)


CHECK = C19()
# scope added in later rounds, kept in the evidence text
CHECK.rule += ' Scan over contig names with equal natural-sort keys (ctg_1, ctg_01, ctg_I). Scan over intervals whose ends are on and next to 2^16 and 2^17. CLI output formats AGP / TPF / STR / REPR in rotation over the cases. CLI with 2-3 input files per invocation (same file name in different directories, distinct names, --name): stderr lists the pairs of every file.'
