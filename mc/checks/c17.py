"""
C17 - outputs are a deterministic function of the input files.

E1/E3 over configurations and histories:
 (i)   every iteration order of the tag sets used while naming (the thing a hash
       seed can influence there) on a tagged remap scope;
 (ii)  hash-seed sweep: the same remap sub-scopes enumerated in fresh
       interpreters under several PYTHONHASHSEED values, digests compared case
       by case; CLI matrix seed x cwd x cache cold/warm on the 12 specimens and
       generated FASTA cases; index buffer sizes through the whole pipeline;
 (iii) every order of consecutive in-process invocations on different inputs,
       against fresh-process runs;
 (iv)  the same input assembly supplied as FASTA, AGP and TPF.
"""

import itertools
import json
import os
import shutil
import subprocess
import sys
from pathlib import Path

from mc import cli, pv
from mc.checks import c09
from mc.engine import VERIF, Check, h64

REPO = os.environ.get("VERIF_REPO", "/repo")
SPECIMENS = Path(REPO) / "tests" / "data"
SEEDS_QUICK = ["0", "1", "2", "3", "4242"]
SEEDS_THOROUGH = ["0", "1", "2", "3", "4", "5", "6", "7", "11", "4242"]

GEN_INPUTS = [
    (
        ("scaffold_1", (("F", "scaffold_1", 1, 40, 1), ("G", 10, "scaffold"), ("F", "scaffold_1", 51, 90, 1))),
        ("scaffold_2", (("F", "scaffold_2", 1, 30, 1),)),
    ),
    (
        ("HAP1_SCAFFOLD_1", (("F", "HAP1_SCAFFOLD_1", 1, 36, 1),)),
        ("HAP2_SCAFFOLD_2", (("F", "HAP2_SCAFFOLD_2", 1, 34, 1), ("G", 4, "scaffold"), ("F", "HAP2_SCAFFOLD_2", 39, 50, 1))),
        ("scaffold_3", (("F", "scaffold_3", 1, 2, 1),)),
    ),
]
GEN_MAPS = [
    (2.5, (("Scaffold_1", (("scaffold_1", 1, 47, 1, ("Painted",)), ("scaffold_2", 1, 30, -1, ("Painted",)))), ("Scaffold_2", (("scaffold_1", 48, 90, -1, ("Painted", "X")),)))),
    (2.5, (("Scaffold_1", (("scaffold_2", 1, 30, 1, ("Haplotig",)),)), ("Scaffold_2", (("scaffold_1", 1, 20, 1, ()), ("scaffold_1", 21, 90, 1, ("Contaminant",)))))),
    (2.0, (("Scaffold_1", (("HAP1_SCAFFOLD_1", 1, 36, 1, ("Painted", "Hap1")),)), ("Scaffold_2", (("HAP2_SCAFFOLD_2", 1, 50, 1, ("Painted", "Hap2")),)))),
    (2.0, (("Scaffold_1", (("HAP2_SCAFFOLD_2", 1, 36, -1, ()),)), ("Scaffold_2", (("HAP2_SCAFFOLD_2", 37, 50, 1, ()), ("HAP1_SCAFFOLD_1", 1, 36, 1, ()))))),
]
GEN_INPUTS.append(
    (
        ("scaffold_1", (("F", "scaffold_1", 1, 40, 1), ("G", 6, "scaffold"))),  # a scaffold that ends in Ns, not last in the file
        ("scaffold_2", (("F", "scaffold_2", 1, 30, 1), ("G", 4, "scaffold"), ("F", "scaffold_2", 35, 60, 1))),
    )
)
GEN_MAPS.append((2.0, (("Scaffold_1", (("scaffold_1", 1, 46, 1, ()),)), ("Scaffold_2", (("scaffold_2", 1, 20, 1, ()),)), ("Scaffold_3", (("scaffold_2", 21, 60, -1, ()),)))))
# Primary mode where the scaffold that carries Primary also carries a haplotype tag and starts with a contig named for the other haplotype
GEN_MAPS.append((2.0, (("Scaffold_1", (("HAP2_SCAFFOLD_2", 1, 50, 1, ("Painted", "Hap1", "Primary")),)), ("Scaffold_2", (("HAP1_SCAFFOLD_1", 1, 36, 1, ("Painted", "Hap2")),)))))
# Primary mode with three haplotypes: the two that are not primary are merged into one all_haplotigs assembly
GEN_INPUTS.append(
    (
        ("HAP1_SCAFFOLD_1", (("F", "HAP1_SCAFFOLD_1", 1, 36, 1),)),
        ("HAP2_SCAFFOLD_2", (("F", "HAP2_SCAFFOLD_2", 1, 30, 1), ("G", 4, "scaffold"), ("F", "HAP2_SCAFFOLD_2", 35, 50, 1))),
        ("HAP3_SCAFFOLD_3", (("F", "HAP3_SCAFFOLD_3", 1, 24, 1),)),
        ("HAP3_SCAFFOLD_4", (("F", "HAP3_SCAFFOLD_4", 1, 10, 1),)),
    )
)
GEN_MAPS.append(
    (
        2.0,
        (
            ("Scaffold_1", (("HAP1_SCAFFOLD_1", 1, 36, 1, ("Painted", "Hap1", "Primary")),)),
            ("Scaffold_2", (("HAP3_SCAFFOLD_3", 1, 24, 1, ("Painted", "Hap3")),)),
            ("Scaffold_3", (("HAP2_SCAFFOLD_2", 1, 50, 1, ("Painted", "Hap2")),)),
            ("Scaffold_4", (("HAP3_SCAFFOLD_4", 1, 10, -1, ("Hap3",)),)),
        ),
    )
)
GEN_CASES = [(0, 0), (0, 1), (1, 2), (1, 3), (2, 4), (1, 5), (3, 6)]  # (input index, map index)
# the same scaffold names with another gap layout: what an older version of the FASTA looked like
ALT_INPUTS = [
    (
        ("scaffold_1", (("F", "scaffold_1", 1, 30, 1), ("G", 20, "scaffold"), ("F", "scaffold_1", 51, 90, 1))),
        ("scaffold_2", (("F", "scaffold_2", 1, 30, 1),)),
    ),
    (
        ("HAP1_SCAFFOLD_1", (("F", "HAP1_SCAFFOLD_1", 1, 10, 1), ("G", 6, "scaffold"), ("F", "HAP1_SCAFFOLD_1", 17, 36, 1))),
        ("HAP2_SCAFFOLD_2", (("F", "HAP2_SCAFFOLD_2", 1, 50, 1),)),
        ("scaffold_3", (("F", "scaffold_3", 1, 2, 1),)),
    ),
    (
        ("scaffold_1", (("F", "scaffold_1", 1, 20, 1), ("G", 26, "scaffold"))),
        ("scaffold_2", (("F", "scaffold_2", 1, 60, 1),)),
    ),
    (
        ("HAP1_SCAFFOLD_1", (("F", "HAP1_SCAFFOLD_1", 1, 16, 1), ("G", 4, "scaffold"), ("F", "HAP1_SCAFFOLD_1", 21, 36, 1))),
        ("HAP2_SCAFFOLD_2", (("F", "HAP2_SCAFFOLD_2", 1, 50, 1),)),
        ("HAP3_SCAFFOLD_3", (("F", "HAP3_SCAFFOLD_3", 1, 10, 1), ("G", 4, "scaffold"), ("F", "HAP3_SCAFFOLD_3", 15, 24, 1))),
        ("HAP3_SCAFFOLD_4", (("F", "HAP3_SCAFFOLD_4", 1, 10, 1),)),
    ),
]


def env_for(seed):
    e = dict(os.environ)
    e["PYTHONHASHSEED"] = seed
    e["PYTHONPATH"] = f"{REPO}/src:{VERIF}"
    e["PYTHONDONTWRITEBYTECODE"] = "1"
    return e


def worker(mode, args, seed="0", cwd=None, timeout=900):
    r = subprocess.run(
        ["/venv/bin/python", "-m", "mc.checks.c17_worker", mode, json.dumps(args)],
        env=env_for(seed),
        cwd=cwd,
        capture_output=True,
        text=True,
        timeout=timeout,
    )
    if r.returncode != 0:
        raise RuntimeError(f"c17 worker failed: {r.stderr[-1500:]}")
    return r.stdout


def files_norm(d, root):
    """all files of a directory, with the scratch root replaced in logs (they print absolute paths)"""
    out = {}
    for name, data in cli.dir_files(d).items():
        out[name] = data.replace(str(root).encode(), b"<ROOT>")
    return out


class OrderedTags(set):
    order = ()

    def __iter__(self):
        present = set(set.__iter__(self))
        for t in OrderedTags.order:
            if t in present:
                yield t
        for t in sorted(present - set(OrderedTags.order)):
            yield t


class C17(Check):
    pid = "C17"
    level_text = (
        "Exhaustive over the enumerated configurations and histories: all tag-set iteration orders, hash-seed sweeps over whole remap sub-scopes in fresh interpreters, CLI matrix seed x cwd x cache state, all orders of consecutive in-process invocations, three input formats."
    )
    technique = (
        "exhaustive enumeration of configurations and histories on the real code: all tag-set iteration orders; hash-seed sweeps in fresh "
        "interpreters over remap sub-scopes; CLI matrix seed x cwd x cache state; all orders of consecutive in-process invocations; three input formats"
    )
    rule = (
        "(i) every permutation of the tag universe (<=5 tags) as iteration order of Scaffold.fragment_tags on every decorated <=3-piece script of a "
        "C09 sub-scope with multi-tag decorations: outputs/stats/exception type identical; (ii-a) C01 sub-scopes (PretextView scripts, chain inputs, "
        "tagged scripts at bpt 2.5/4) enumerated under PYTHONHASHSEED in {0,1,2,3,4242} (+5 more thorough): per-case digests identical; (ii-b) "
        "pretext-to-asm on the 12 specimens and 4 generated FASTA cases x seed x cwd {/, scratch} x cache {cold, warm}: byte-identical files (scratch "
        "path masked in logs); (ii-c) index buffer {1,2,3,5,7,250000} through cache files and pipeline output; (iii) all permutations of 4 "
        "consecutive in-process invocations (3 pretext-to-asm inputs + 1 asm-format) vs fresh-process runs; (iv) FASTA vs AGP vs TPF input: same "
        "output files. non-trivial = configuration that differs from the reference configuration in at least one dimension"
        " Cache states cold / warm / stale / half-updated / stale with the same mtime as the FASTA / left by a run interrupted (Ctrl-C) while writing the .agp; cwd in {/, scratch, output directory}; digest scope with two or three tags per piece; an input scaffold that ends in Ns in the three-format comparison."
    )
    assumptions = [
        "hash-order dependence other than tag sets is observed only through the enumerated seeds",
        "log files are compared after masking the scratch directory name",
    ]
    shard_timeout = {"quick": 900, "thorough": 5400}

    def bounds(self, tier):
        return {"seeds": SEEDS_QUICK if tier == "quick" else SEEDS_THOROUGH, "specimens": 12, "generated_cases": len(GEN_CASES), "sequence_length": 4}

    def shards(self, tier):
        out = [("tagorder", c, 16, tier) for c in range(16)]
        for scope, chunks, take in (("a", 96, 8 if tier == "quick" else 96), ("chain", 4, 4), ("tags", 32, 6 if tier == "quick" else 32), ("tags2", 8, 4 if tier == "quick" else 8)):
            for c in range(take):
                out.append(("digest", scope, c, chunks, tier))
        for sp in sorted(p.name for p in SPECIMENS.iterdir() if p.is_dir()):
            out.append(("specimen", sp, tier))
        for gi in range(len(GEN_CASES)):
            out.append(("gencli", gi, tier))
        out.append(("buffers", tier))
        for block in range(4):
            out.append(("sequence", block, tier))
        out.append(("seqhist", tier))
        out.append(("round2", tier))
        for block in range(4):
            out.append(("apihist", block))
        for gi in range(len(GEN_CASES)):
            out.append(("formats", gi, tier))
        return out

    # ---------------------------------------------------------------- (i)
    def tag_orders(self, chunk, chunks, tier, ctx, only=None):
        from tola.assembly.scaffold import Scaffold

        decor = [
            ("Painted", "Hap1"),
            ("Painted", "X"),
            ("Painted", "Hap1", "X"),
            ("Painted", "Target", "Hap2"),
            ("Hap1", "Target"),
            ("Painted", "Hap1", "Primary"),
            ("Painted", "X", "B1"),
            ("Hap1", "Hap2"),
            ("Painted", "Hap1", "Singleton"),
            (),
        ]
        orig = Scaffold.fragment_tags

        def patched(self_):
            return OrderedTags(orig(self_))

        Scaffold.fragment_tags = patched
        try:
            n = 0
            inp = c09.inputs_for(2.5, "quick")[0]
            pieces_list = [p for p in pv.pv_piece_lists(inp[:2], 2.5, max_cuts=1, max_pieces=3, min_pieces=2, margin=1)]
            for pieces in pieces_list:
                if sum(1 for p in pieces if p[0] != "scaffold_1") != 1:
                    continue
                np_ = len(pieces)
                for arr in pv.arrangements(np_, orientations=(1,)):
                    ng = len(arr)
                    if tier == "quick" and ng == 1:
                        continue
                    quick_decor = [decor[0], decor[1], decor[2], decor[4], decor[6], decor[7], decor[9]] if ng < 3 else [decor[0], decor[2], decor[4], decor[7], decor[9]]
                    for decs in itertools.product(decor if tier == "thorough" else quick_decor, repeat=ng):
                        n += 1
                        if only is None and n % chunks != chunk:
                            continue
                        scaffolds = []
                        for gi, grp in enumerate(arr):
                            scaffolds.append((f"Scaffold_{gi + 1}", tuple((pieces[pi][0], pieces[pi][1], pieces[pi][2], o, tuple(decs[gi])) for pi, o in grp)))
                        pvspec = (2.5, tuple(scaffolds))
                        if only is not None and pv.jsonable(pvspec) != only:
                            continue
                        self.one_tag_case(inp, pvspec, ctx)
            ctx.sample({"tagorder": "all permutations of the tag universe", "decorations": [list(d) for d in decor]})
        finally:
            Scaffold.fragment_tags = orig

    def one_tag_case(self, inp, pvspec, ctx):
        universe = sorted({t for _, ps in pvspec[1] for p in ps for t in p[4]})
        case = ["tagorder", pv.jsonable(inp), pv.jsonable(pvspec)]
        ctx.cur = case
        ref = None
        for perm in itertools.permutations(universe):
            OrderedTags.order = perm
            ctx.evaluations += 1
            if ref is not None:
                ctx.nontrivial += 1
            try:
                ba, out, _ = pv.remap(inp, pvspec)
                st = ba.assembly_stats
                obs = ("ok", h64((pv.out_spec(out), st.cuts, st.breaks, st.joins, [(k, [s.name for s in a.scaffolds]) for k, a in out.items()])))
            except Exception as e:  # noqa: BLE001
                obs = ("raised", type(e).__name__)
            if ref is None:
                ref = (perm, obs)
            elif obs != ref[1]:
                ctx.violation("output-depends-on-tag-iteration-order", case, f"order {perm!r}: {obs!r}; order {ref[0]!r}: {ref[1]!r}")
                break
        ctx.outcome(h64((case, ref[1] if ref else None)))

    # ---------------------------------------------------------------- (ii-a)
    def digest_sweep(self, scope, chunk, chunks, tier, ctx, only=None):
        seeds = self.bounds(tier)["seeds"]
        d = cli.scratch("verif_c17_")
        try:
            ref = None
            for seed in seeds:
                out = d / f"dig_{seed}.txt"
                worker("digest", {"scope": scope, "chunk": chunk, "chunks": chunks, "out": str(out)}, seed=seed)
                digs = out.read_text().split()
                ctx.evaluations += len(digs)
                ctx.transitions += len(digs)
                if ref is None:
                    ref = (seed, digs)
                    ctx.states += len(digs)
                    continue
                ctx.nontrivial += len(digs)
                if len(digs) != len(ref[1]):
                    ctx.violation("scope-size-depends-on-hash-seed", ["digest", scope, chunk, chunks, seed, ref[0], -1], f"{len(digs)} vs {len(ref[1])}")
                    continue
                bad = [i for i, (a, b) in enumerate(zip(digs, ref[1])) if a != b]
                if bad:
                    i = bad[0]
                    o2 = d / "one.txt"
                    worker("digest", {"scope": scope, "chunk": chunk, "chunks": chunks, "out": str(o2), "only": i}, seed=seed)
                    what = json.loads(o2.read_text())
                    ctx.violation(
                        "output-depends-on-hash-seed",
                        ["digest", scope, chunk, chunks, seed, ref[0], i],
                        f"{len(bad)} cases differ between PYTHONHASHSEED={seed} and {ref[0]}; first: {json.dumps(what['case'])[:1200]}",
                    )
            ctx.sample({"digest_sweep": scope, "chunk": [chunk, chunks], "seeds": seeds, "cases": len(ref[1]) if ref else 0})
        finally:
            cli.cleanup(d)

    # ---------------------------------------------------------------- (ii-b)
    def specimen_matrix(self, sp, tier, ctx):
        seeds = self.bounds(tier)["seeds"]
        sdir = SPECIMENS / sp
        import re

        specimen, version = sp, ""
        if m := re.search(r"_(\d+)$", sp):
            version = "." + m.group(1)
            specimen = sp[: -len(m.group(0))]
        input_tpf = sdir / f"{specimen}-input{version}.tpf"
        pretext = sdir / f"{specimen}-pretext{version}.agp"
        out_name = f"{specimen}-pretext-to-tpf{version}.tpf"
        d = cli.scratch("verif_c17_")
        try:
            ref = None
            n = 0
            for seed in seeds:
                for cwd in ("/", "scratch"):
                    n += 1
                    od = d / f"o{n}"
                    od.mkdir()
                    cw = "/" if cwd == "/" else str(od)
                    argv = ["-a", str(input_tpf), "-p", str(pretext), "-o", str(od / out_name), "--write-log"]
                    codes = json.loads(worker("cli", {"argv": argv, "cwd": cw}, seed=seed).strip().splitlines()[-1])
                    files = files_norm(od, od)
                    case = ["specimen", sp, seed, cwd]
                    ctx.cur = case
                    ctx.evaluations += 1
                    if ref is None:
                        ref = (case, codes, files)
                        # the pinned expectations of the repository are a second reference
                        for p in sdir.iterdir():
                            if p.name in (input_tpf.name, pretext.name) or p.name.startswith("."):
                                continue
                            if files.get(p.name) != p.read_bytes() and not p.name.endswith(".log"):
                                ctx.violation("specimen-output-differs-from-pinned", case, p.name)
                        continue
                    ctx.nontrivial += 1
                    if codes != ref[1] or files != ref[2]:
                        diff = sorted(k for k in set(files) | set(ref[2]) if files.get(k) != ref[2].get(k))
                        ctx.violation("cli-output-depends-on-seed-or-cwd", case, f"differs from {ref[0]!r} in {diff!r} (exit {codes} vs {ref[1]})")
                    shutil.rmtree(od, ignore_errors=True)
            ctx.outcome(h64(sorted(ref[2].items())))
            ctx.sample({"specimen": sp, "seeds": seeds, "cwd": ["/", "scratch"]})
        finally:
            cli.cleanup(d)

    def gen_cli_matrix(self, gi, tier, ctx):
        seeds = self.bounds(tier)["seeds"]
        ii, mi = GEN_CASES[gi]
        d = cli.scratch("verif_c17_")
        try:
            ref = None
            n = 0
            for seed in seeds:
                for cwd in ("/", "scratch", "outdir"):
                    for cache in ("cold", "warm", "stale", "half-updated", "stale-tie", "interrupted"):
                        if cwd == "outdir" and cache not in ("cold", "warm"):
                            continue
                        if cache in ("stale-tie", "interrupted") and cwd != "scratch":
                            continue
                        n += 1
                        base = d / f"r{n}"
                        (base / "in").mkdir(parents=True)
                        (base / "out").mkdir()
                        cli.write_fasta(base / "in" / "asm.fa", GEN_INPUTS[ii], width=11)
                        cli.write_pretext(base / "in" / "map.agp", GEN_MAPS[mi])
                        os.utime(base / "in" / "asm.fa", (1_000_000, 1_000_000))
                        argv = ["-a", str(base / "in" / "asm.fa"), "-p", str(base / "in" / "map.agp"), "-o", str(base / "out" / "x.fa")]
                        cw = "/" if cwd == "/" else (str(base) if cwd == "scratch" else str(base / "out"))
                        if cwd == "outdir":
                            argv[-1] = "x.fa"  # the documented usage: a relative --output inside the curation directory
                        if cache != "cold":
                            fa = base / "in" / "asm.fa"
                            if cache in ("stale", "half-updated", "stale-tie"):
                                # the cache is built from an older version of the FASTA (other gap layout) ...
                                cli.write_fasta(fa, ALT_INPUTS[ii], width=11)
                                os.utime(fa, (1_000_000, 1_000_000))
                            (base / "warmup").mkdir()
                            wargs = {"argv": argv[:-1] + [str(base / "warmup" / "x.fa")], "cwd": "/" if cwd == "outdir" else cw}
                            if cache == "interrupted":
                                # the earlier run was interrupted (Ctrl-C) while it wrote the .agp half of the cache
                                wargs["interrupt"] = {"substr": "asm.fa.agp", "nth_write": 2}
                            worker("cli", wargs, seed=seed)
                            shutil.rmtree(base / "warmup", ignore_errors=True)
                            if not (base / "in" / "asm.fa.fai").exists():
                                ctx.violation("cache-not-written", ["gencli", gi, seed, cwd, cache], "no .fai after the warm-up run")
                            if cache in ("stale", "half-updated", "stale-tie"):
                                # ... then the FASTA is replaced, with a later mtime than both cache files
                                cli.write_fasta(fa, GEN_INPUTS[ii], width=11)
                                later = os.stat(str(fa) + ".agp").st_mtime + 100
                                os.utime(fa, (later, later))
                                if cache == "stale-tie":
                                    # ... or within the same clock tick as the old cache was written (coarse timestamps)
                                    os.utime(str(fa) + ".fai", (later, later))
                                    os.utime(str(fa) + ".agp", (later, later))
                                if cache == "half-updated":
                                    # an indexing run that died between the two cache files: fresh .fai, old .agp
                                    from tola.fasta.index import index_fasta_file

                                    idx, _ = index_fasta_file(fa, 7)
                                    with open(str(fa) + ".fai", "w") as fh:
                                        for n_, info in idx.items():
                                            fh.write(info.fai_row(n_))
                                    os.utime(str(fa) + ".fai", (later + 100, later + 100))
                        codes = json.loads(worker("cli", {"argv": argv, "cwd": cw}, seed=seed).strip().splitlines()[-1])
                        files = files_norm(base / "out", base)
                        cachefiles = files_norm(base / "in", base)
                        case = ["gencli", gi, seed, cwd, cache]
                        ctx.cur = case
                        ctx.evaluations += 1
                        if ref is None:
                            ref = (case, codes, files, cachefiles)
                            if codes != [0]:
                                ctx.violation("generated-case-fails", case, f"exit {codes}")
                        else:
                            ctx.nontrivial += 1
                            diff = sorted(k for k in set(files) | set(ref[2]) if files.get(k) != ref[2].get(k))
                            if cache in ("stale", "half-updated", "stale-tie", "interrupted"):
                                # a stale cache is announced in the log (warnings about the old files): the log is not compared there
                                diff = [k for k in diff if not k.endswith(".log")]
                            if codes != ref[1] or diff:
                                ctx.violation("cli-output-depends-on-seed-cwd-or-cache", case, f"differs from {ref[0]!r} in {diff!r}")
                            elif cachefiles != ref[3]:
                                diff = sorted(k for k in set(cachefiles) | set(ref[3]) if cachefiles.get(k) != ref[3].get(k))
                                ctx.violation("cache-files-depend-on-configuration", case, f"{diff!r}")
                        shutil.rmtree(base, ignore_errors=True)
            ctx.outcome(h64(sorted(ref[2].items())))
            ctx.sample({"generated_case": [pv.jsonable(GEN_INPUTS[ii]), pv.jsonable(GEN_MAPS[mi])], "matrix": "seed x cwd x cache cold/warm"})
        finally:
            cli.cleanup(d)

    # ---------------------------------------------------------------- (ii-c)
    def buffer_sweep(self, tier, ctx):
        import io
        import logging

        from tola.assembly.indexed_assembly import IndexedAssembly
        from tola.fasta.index import FastaIndex
        from tola.fasta.stream import FastaStream

        d = cli.scratch("verif_c17_")
        try:
            lens = range(1, 9 if tier == "quick" else 11)
            n = 0
            # every string over {A,n}, and (shorter) every string over {A,n,R} that contains the ambiguity code R
            strings = [bytes(t) for ln in lens for t in itertools.product(b"An", repeat=ln)]
            strings += [bytes(t) for ln in range(2, 7 if tier == "quick" else 8) for t in itertools.product(b"AnR", repeat=ln) if b"R"[0] in t]
            for seq in strings:
                if True:
                    if b"A" not in seq:
                        continue
                    for w in (2, 3, 4):
                        n += 1
                        ref = None
                        for buf in (1, 2, 3, 5, 7, 250_000):
                            case = ["buffers", seq.decode(), w, buf]
                            ctx.cur = case
                            ctx.evaluations += 1
                            p = d / f"b{n}_{buf}.fa"
                            with open(p, "wb") as fh:
                                fh.write(b">scaffold_1\n")
                                for i in range(0, len(seq), w):
                                    fh.write(seq[i : i + w] + b"\n")
                                fh.write(b">scaffold_2\nACGTAC\n")
                            os.utime(p, (1_000_000, 1_000_000))
                            fi = FastaIndex(p, buf)
                            fi.auto_load()
                            warm = FastaIndex(p, buf)
                            warm.auto_load()
                            total = len(seq)
                            pvspec = (1.0, (("Scaffold_1", (("scaffold_1", 1, total, -1, ()), ("scaffold_2", 1, 6, 1, ()))),))
                            outs = []
                            for f_ in (fi, warm):
                                from tola.assembly.build_assembly import BuildAssembly
                                from tola.assembly.gap import Gap

                                ba = BuildAssembly("o", default_gap=Gap(200, "scaffold"))
                                logging.disable(logging.CRITICAL)
                                ba.remap_to_input_assembly(pv.build_pretext(pvspec), IndexedAssembly.new_from_assembly(f_.assembly))
                                res = ba.assemblies_with_scaffolds_fused()
                                o = io.BytesIO()
                                for a in res.values():
                                    FastaStream(o, f_).write_assembly(a)
                                outs.append(o.getvalue())
                            obs = (
                                Path(str(p) + ".fai").read_bytes(),
                                Path(str(p) + ".agp").read_bytes().replace(p.name.encode(), b"<F>"),
                                outs[0],
                                outs[1],
                            )
                            fi.fasta_fileandle.close()
                            warm.fasta_fileandle.close()
                            for sfx in ("", ".fai", ".agp"):
                                Path(str(p) + sfx).unlink()
                            if outs[0] != outs[1]:
                                ctx.violation("cold-vs-warm-cache-output-differs", case, f"{outs[0]!r} vs {outs[1]!r}")
                            if ref is None:
                                ref = (buf, obs)
                            else:
                                ctx.nontrivial += 1
                                if obs != ref[1]:
                                    which = [k for k, (a, b) in zip(("fai", "agp", "fasta-cold", "fasta-warm"), zip(obs, ref[1])) if a != b]
                                    ctx.violation("output-depends-on-buffer-size", case, f"buffer {buf} vs {ref[0]}: {which!r} differ")
            ctx.sample({"buffers": [1, 2, 3, 5, 7, 250000], "sequence": "every string over {A,n} up to length %d, width 2-4" % max(lens)})
        finally:
            cli.cleanup(d)

    # ---------------------------------------------------------------- (iii)
    def sequence_orders(self, block, tier, ctx, only_perm=None):
        d = cli.scratch("verif_c17_")
        try:
            (d / "in").mkdir()
            jobs = []
            for k, (ii, mi) in enumerate(GEN_CASES[:3]):
                cli.write_tpf(d / "in" / f"asm{k}.tpf", GEN_INPUTS[ii])
                cli.write_pretext(d / "in" / f"map{k}.agp", GEN_MAPS[mi])
                jobs.append({"tool": "p2a", "argv": ["-a", str(d / "in" / f"asm{k}.tpf"), "-p", str(d / "in" / f"map{k}.agp"), "-o", "OUT/x.tpf"]})
            cli.write_agp(d / "in" / "conv.agp", GEN_INPUTS[0])
            jobs.append({"tool": "asm_format", "argv": [str(d / "in" / "conv.agp"), "-o", "OUT/conv.tpf", "--qc-overlaps"]})
            sp = SPECIMENS / "nxCaeSpej1"
            jobs.append({"tool": "p2a", "argv": ["-a", str(sp / "nxCaeSpej1-input.tpf"), "-p", str(sp / "nxCaeSpej1-pretext.agp"), "-o", "OUT/sp.tpf"]})

            def materialise(job, outdir):
                outdir.mkdir(parents=True, exist_ok=True)
                return {"tool": job["tool"], "argv": [a.replace("OUT", str(outdir)) for a in job["argv"]]}

            # reference: each job alone in a fresh process
            refs = []
            for k, job in enumerate(jobs):
                od = d / f"ref{k}"
                worker("sequence", {"runs": [materialise(job, od)]})
                refs.append(files_norm(od, od))
            perms = list(itertools.permutations(range(len(jobs)), 4))
            for pi, perm in enumerate(perms):
                if only_perm is not None:
                    if list(perm) != list(only_perm):
                        continue
                elif pi % 4 != block:
                    continue
                case = ["sequence", list(perm)]
                ctx.cur = case
                ctx.evaluations += 1
                ctx.nontrivial += 1
                runs = []
                ods = []
                for pos, k in enumerate(perm):
                    od = d / f"p{pi}_{pos}"
                    ods.append((k, od))
                    runs.append(materialise(jobs[k], od))
                codes = json.loads(worker("sequence", {"runs": runs}).strip().splitlines()[-1])
                if any(codes):
                    ctx.violation("sequence-run-fails", case, f"exit codes {codes}")
                for pos, (k, od) in enumerate(ods):
                    got = files_norm(od, od)
                    if got != refs[k]:
                        diff = sorted(n for n in set(got) | set(refs[k]) if got.get(n) != refs[k].get(n))
                        ctx.violation("output-depends-on-earlier-runs-in-process", case, f"job {k} at position {pos}: {diff!r} differ from its fresh-process run")
                        break
                    shutil.rmtree(od, ignore_errors=True)
            ctx.sample({"sequence": "every ordered selection of 4 of 5 jobs (3 generated pretext-to-asm, asm-format, 1 specimen) in one process"})
        finally:
            cli.cleanup(d)

    def sequence_histories(self, tier, ctx, only=None):
        """
        two invocations in one process that share something by name: (path) the same FASTA path holding another file
        the second time; (rank) the same scaffold name with another rank the second time.  The second invocation is
        compared with itself run alone in a fresh process.
        """
        d = cli.scratch("verif_c17_")
        try:
            (d / "in").mkdir()
            # (path) v1 and v2 of an assembly with the same scaffold names
            cli.write_fasta(d / "in" / "v1.fa", GEN_INPUTS[0], width=11)
            cli.write_fasta(d / "in" / "v2.fa", ALT_INPUTS[0], width=11)
            cli.write_pretext(d / "in" / "map.agp", GEN_MAPS[0])
            fa = d / "in" / "asm.fa"
            caches = [str(fa) + ".fai", str(fa) + ".agp"]
            # (rank) SUPER_2 is an autosome in the first map, left unpainted (rank 3, keeps its name) in the second
            inp_r = (
                ("SUPER_1", (("F", "SUPER_1", 1, 40, 1),)),
                ("SUPER_2", (("F", "SUPER_2", 1, 30, 1),)),
                ("SUPER_X", (("F", "SUPER_X", 1, 20, 1),)),
            )
            cli.write_tpf(d / "in" / "r.tpf", inp_r)
            m1 = (2.0, (("Scaffold_1", (("SUPER_1", 1, 40, 1, ("Painted",)),)), ("Scaffold_2", (("SUPER_2", 1, 30, 1, ("Painted",)),)), ("Scaffold_3", (("SUPER_X", 1, 20, 1, ("Painted", "X")),))))
            m2 = (2.0, (("Scaffold_1", (("SUPER_1", 1, 40, 1, ("Painted",)),)), ("Scaffold_2", (("SUPER_2", 1, 30, 1, ()),)), ("Scaffold_3", (("SUPER_X", 1, 20, 1, ("Painted", "X")),))))
            cli.write_pretext(d / "in" / "m1.agp", m1)
            cli.write_pretext(d / "in" / "m2.agp", m2)
            # (twice) a second haplotype with two painted scaffolds in one group (lettered names SUPER_1A, SUPER_1B), run twice
            inp_l = (
                ("HAP1_SCAFFOLD_1", (("F", "HAP1_SCAFFOLD_1", 1, 40, 1),)),
                ("HAP2_SCAFFOLD_2", (("F", "HAP2_SCAFFOLD_2", 1, 30, 1),)),
                ("HAP2_SCAFFOLD_3", (("F", "HAP2_SCAFFOLD_3", 1, 20, 1),)),
            )
            cli.write_tpf(d / "in" / "l.tpf", inp_l)
            ml = (2.0, (("Scaffold_1", (("HAP1_SCAFFOLD_1", 1, 40, 1, ("Painted", "Hap1")),)), ("Scaffold_2", (("HAP2_SCAFFOLD_2", 1, 30, 1, ("Painted", "Hap2")),)), ("Scaffold_3", (("HAP2_SCAFFOLD_3", 1, 20, 1, ("Painted", "Hap2")),))))
            cli.write_pretext(d / "in" / "ml.agp", ml)

            def p2a(asm, mp, od, ext):
                od.mkdir(parents=True, exist_ok=True)
                return {"tool": "p2a", "argv": ["-a", str(asm), "-p", str(d / "in" / mp), "-o", str(od / f"x.{ext}")]}

            def put(v, remove):
                return {"tool": "copy", "src": str(d / "in" / f"{v}.fa"), "dst": str(fa), "remove": caches if remove else []}

            histories = {
                "path-v1-then-v2-caches-removed": ([put("v1", True), p2a(fa, "map.agp", d / "h1a", "fa"), put("v2", True)], [put("v2", True)], p2a(fa, "map.agp", d / "OUT", "fa")),
                "path-v2-then-v1-caches-removed": ([put("v2", True), p2a(fa, "map.agp", d / "h2a", "fa"), put("v1", True)], [put("v1", True)], p2a(fa, "map.agp", d / "OUT", "fa")),
                "path-v1-then-v2-caches-kept": ([put("v1", True), p2a(fa, "map.agp", d / "h3a", "fa"), put("v2", False)], [put("v2", True)], p2a(fa, "map.agp", d / "OUT", "fa")),
                "rank-autosome-then-unpainted": ([p2a(d / "in" / "r.tpf", "m1.agp", d / "h4a", "tpf")], [], p2a(d / "in" / "r.tpf", "m2.agp", d / "OUT", "tpf")),
                "lettered-names-same-job-twice": ([p2a(d / "in" / "l.tpf", "ml.agp", d / "h6a", "tpf")], [], p2a(d / "in" / "l.tpf", "ml.agp", d / "OUT", "tpf")),
                "rank-unpainted-then-autosome": ([p2a(d / "in" / "r.tpf", "m2.agp", d / "h5a", "tpf")], [], p2a(d / "in" / "r.tpf", "m1.agp", d / "OUT", "tpf")),
            }
            for name, (before, alone_before, last) in histories.items():
                if only is not None and name != only:
                    continue
                case = ["seqhist", name]
                ctx.cur = case
                ctx.evaluations += 1
                ctx.nontrivial += 1
                outs = []
                for k, prefix in enumerate((alone_before, before)):
                    od = d / f"{name}_{k}"
                    job = json.loads(json.dumps(last).replace(str(d / "OUT"), str(od)))
                    od.mkdir(parents=True, exist_ok=True)
                    if name.endswith("caches-kept") and k == 1:
                        # the second file must look newer than the cache the first run wrote
                        pass
                    codes = json.loads(worker("sequence", {"runs": [*prefix, job]}).strip().splitlines()[-1])
                    if any(codes):
                        ctx.violation("sequence-run-fails", case, f"exit codes {codes}")
                    outs.append({n: v for n, v in files_norm(od, od).items() if not (name.endswith("caches-kept") and n.endswith(".log"))})
                if name.startswith("lettered") and not any(b"SUPER_1B" in v for v in outs[0].values()):
                    raise RuntimeError("harness: the lettered-names job does not produce SUPER_1B")
                if outs[0] != outs[1]:
                    diff = sorted(n for n in set(outs[0]) | set(outs[1]) if outs[0].get(n) != outs[1].get(n))
                    ctx.violation("output-depends-on-earlier-runs-in-process", case, f"{diff!r} differ from the fresh-process run")
                ctx.outcome(h64(sorted(outs[0].items())))
            ctx.sample({"sequence_histories": sorted(histories)})
        finally:
            cli.cleanup(d)

    def second_round(self, tier, ctx):
        """
        a second curation round that takes a FASTA written by the first round as its --assembly: run where the first
        round left it (with everything that round wrote beside it, with and without a .fai made by another tool) and on
        a copy of the FASTA alone in a fresh directory.  Outputs must be the same.
        """
        d = cli.scratch("verif_c17_")
        try:
            (d / "in").mkdir()
            for gi in (0, 1):
                ii, mi = GEN_CASES[gi]
                base = d / f"g{gi}"
                (base / "r1").mkdir(parents=True)
                cli.write_fasta(base / "asm.fa", GEN_INPUTS[ii], width=11)
                cli.write_pretext(base / "map.agp", GEN_MAPS[mi])
                worker("cli", {"argv": ["-a", str(base / "asm.fa"), "-p", str(base / "map.agp"), "-o", str(base / "r1" / "x.fa")], "cwd": "/"})
                for fa in sorted((base / "r1").glob("*.fa")):
                    recs = []
                    off = 0
                    name = None
                    for line in fa.read_bytes().split(b"\n")[:-1]:
                        if line.startswith(b">"):
                            name = line[1:].decode()
                            recs.append([name, 0, off + len(line) + 1])
                        else:
                            recs[-1][1] += len(line)
                        off += len(line) + 1
                    if not recs or any(ln < 4 for _, ln, _ in recs):
                        continue
                    map2 = (2.0, tuple((f"Scaffold_{k + 1}", ((n, 1, ln - (ln % 2), 1, ()),)) for k, (n, ln, _) in enumerate(recs)))
                    cli.write_pretext(base / "map2.agp", map2)
                    outs = {}
                    for state in ("cold", "as-left+fai", "as-left"):
                        case = ["round2", gi, fa.name, state]
                        ctx.cur = case
                        ctx.evaluations += 1
                        ctx.nontrivial += 1
                        if state == "cold":
                            src = base / "cold" / "in.fa"
                            src.parent.mkdir(exist_ok=True)
                            shutil.copyfile(fa, src)
                        else:
                            src = fa
                            # (a clock tick between the FASTA and what was written after it: files written later are newer)
                            st_ = os.stat(fa)
                            os.utime(fa, ns=(st_.st_mtime_ns - 2_000_000_000, st_.st_mtime_ns - 2_000_000_000))
                            if state == "as-left+fai":
                                # what `samtools faidx` writes: name, length, offset, bases per line, bytes per line
                                with open(str(fa) + ".fai", "w") as fh:
                                    for n, ln, o in recs:
                                        fh.write(f"{n}\t{ln}\t{o}\t{min(ln, 60)}\t{min(ln, 60) + 1}\n")
                        od = base / f"r2_{fa.stem}_{state}"
                        od.mkdir()
                        codes = json.loads(worker("cli", {"argv": ["-a", str(src), "-p", str(base / "map2.agp"), "-o", str(od / "y.fa")], "cwd": "/"}).strip().splitlines()[-1])
                        outs[state] = (codes, {n: v for n, v in files_norm(od, od).items() if not n.endswith(".log")})
                        if state != "cold" and outs[state] != outs["cold"]:
                            diff = sorted(n for n in set(outs[state][1]) | set(outs["cold"][1]) if outs[state][1].get(n) != outs["cold"][1].get(n))
                            ctx.violation("second-round-output-depends-on-what-the-first-round-left-beside-its-fasta", case, f"exit {outs[state][0]} vs {outs['cold'][0]}; differing files {diff!r}")
                        for sfx in (".fai", ".agp"):
                            pth = Path(str(fa) + sfx)
                            if state == "as-left+fai" and pth.exists() and sfx == ".fai":
                                pth.unlink()
                    ctx.outcome(h64(sorted(outs["cold"][1].items())))
            ctx.sample({"second_round": "a FASTA written by round 1 is the --assembly of round 2: as left / with a foreign .fai / copied alone"})
        finally:
            cli.cleanup(d)

    # ---------------------------------------------------------------- (iv)
    def formats(self, gi, tier, ctx):
        ii, mi = GEN_CASES[gi]
        d = cli.scratch("verif_c17_")
        try:
            ref = None
            for fmt in ("fasta", "agp", "tpf"):
                base = d / fmt
                (base / "in").mkdir(parents=True)
                (base / "out").mkdir()
                if fmt == "fasta":
                    cli.write_fasta(base / "in" / "asm.fa", GEN_INPUTS[ii], width=13)
                    src = base / "in" / "asm.fa"
                elif fmt == "agp":
                    cli.write_agp(base / "in" / "asm.agp", GEN_INPUTS[ii])
                    src = base / "in" / "asm.agp"
                else:
                    cli.write_tpf(base / "in" / "asm.tpf", GEN_INPUTS[ii])
                    src = base / "in" / "asm.tpf"
                cli.write_pretext(base / "in" / "map.agp", GEN_MAPS[mi])
                argv = ["-a", str(src), "-p", str(base / "in" / "map.agp"), "-o", str(base / "out" / "x.agp"), "--no-write-log"]
                codes = json.loads(worker("cli", {"argv": argv, "cwd": "/"}).strip().splitlines()[-1])
                files = files_norm(base / "out", base)
                case = ["formats", gi, fmt]
                ctx.cur = case
                ctx.evaluations += 1
                if ref is None:
                    ref = (fmt, codes, files)
                    if codes != [0]:
                        ctx.violation("generated-case-fails", case, f"exit {codes}")
                else:
                    ctx.nontrivial += 1
                    if codes != ref[1] or files != ref[2]:
                        diff = sorted(k for k in set(files) | set(ref[2]) if files.get(k) != ref[2].get(k))
                        ctx.violation("output-depends-on-input-format", case, f"{fmt} vs {ref[0]}: {diff!r}")
            ctx.sample({"formats": ["fasta", "agp", "tpf"], "case": gi})
        finally:
            cli.cleanup(d)

    # ---------------------------------------------------------------- API histories
    APIHIST_TEXTS = None

    def apihist_texts(self):
        """small inputs that differ in how they spell one gap: type in three spellings + contig, length 100 / 200 / 0200, AGP and TPF"""
        if C17.APIHIST_TEXTS is None:
            out = []
            for gt in ("scaffold", "Scaffold", "SCAFFOLD", "contig"):
                for gl in ("100", "200"):
                    n = int(gl)
                    out.append(("AGP", f"{gt}{gl}", f"s_1\t1\t50\t1\tW\tc1\t1\t50\t+\ns_1\t51\t{50 + n}\t2\tU\t{gl}\t{gt}\tyes\tproximity_ligation\ns_1\t{51 + n}\t{90 + n}\t3\tW\tc2\t1\t40\t-\n"))
            for ty, gl in (("TYPE-2", "200"), ("TYPE-3", "200"), ("TYPE-2", "0200"), ("Scaffold", "200"), ("TYPE-2", "100")):
                out.append(("TPF", f"{ty}/{gl}", f"?\tc1:1-50\ts_1\tPLUS\nGAP\t{ty}\t{gl}\n?\tc2:1-40\ts_1\tMINUS\n"))
            C17.APIHIST_TEXTS = out
        return C17.APIHIST_TEXTS

    def api_histories(self, block, ctx, only=None):
        """parse A, format it; parse one or two other inputs; format the held A again: same bytes (AGP and TPF)"""
        import io

        from tola.assembly.format import format_agp, format_tpf
        from tola.assembly.parser import parse_agp, parse_tpf

        texts = self.apihist_texts()

        def load(i):
            fmt, _label, txt = texts[i]
            return (parse_agp if fmt == "AGP" else parse_tpf)(io.StringIO(txt), "x")

        def dump(asm):
            a, t = io.StringIO(), io.StringIO()
            format_agp(asm, a)
            format_tpf(asm, t)
            return a.getvalue(), t.getvalue()

        n = len(texts)
        hists = [(i, j) for i in range(n) for j in range(n)] + [(i, j, k) for i in range(n) for j in range(n) for k in range(n) if j != k]
        for hi, hist in enumerate(hists):
            if only is not None:
                if list(hist) != list(only):
                    continue
            elif hi % 4 != block:
                continue
            case = ["apihist", list(hist), [texts[i][1] for i in hist]]
            ctx.cur = case
            ctx.evaluations += 1
            ctx.nontrivial += 1
            try:
                held = load(hist[0])
                first = dump(held)
                others = [load(i) for i in hist[1:]]
                other_first = [dump(o) for o in others]
                again = dump(held)
                others_again = [dump(o) for o in others]
            except Exception as e:  # noqa: BLE001
                ctx.violation(f"apihist-raises:{type(e).__name__}", case, repr(e))
                continue
            if again != first:
                ctx.violation("held-assembly-output-changed-by-later-parse", case, f"first {first!r} later {again!r}")
            elif others_again != other_first:
                ctx.violation("held-assembly-output-changed-by-later-parse/others", case, f"first {other_first!r} later {others_again!r}")
            ctx.outcome(h64((first, other_first)))
        ctx.sample({"apihist": "parse A, format; parse B (and C); format the held A again", "inputs": [t[1] for t in texts]})

    # ------------------------------------------------------------------
    def run_shard(self, shard, ctx):
        kind = shard[0]
        if kind == "apihist":
            return self.api_histories(shard[1], ctx)
        if kind == "tagorder":
            self.tag_orders(shard[1], shard[2], shard[3], ctx)
        elif kind == "digest":
            self.digest_sweep(shard[1], shard[2], shard[3], shard[4], ctx)
        elif kind == "specimen":
            self.specimen_matrix(shard[1], shard[2], ctx)
        elif kind == "gencli":
            self.gen_cli_matrix(shard[1], shard[2], ctx)
        elif kind == "buffers":
            self.buffer_sweep(shard[1], ctx)
        elif kind == "sequence":
            self.sequence_orders(shard[1], shard[2], ctx)
        elif kind == "seqhist":
            self.sequence_histories(shard[1], ctx)
        elif kind == "round2":
            self.second_round(shard[1], ctx)
        elif kind == "formats":
            self.formats(shard[1], shard[2], ctx)

    def replay(self, case, ctx):
        kind = case[0]
        tier = ctx.tier
        if kind == "apihist":
            return self.api_histories(0, ctx, only=case[1])
        if kind == "tagorder":
            self.tag_orders(0, 1, "thorough", ctx, only=case[2])
        elif kind == "digest":
            self.digest_sweep(case[1], case[2], case[3], tier, ctx)
        elif kind == "specimen":
            self.specimen_matrix(case[1], tier, ctx)
        elif kind == "gencli":
            self.gen_cli_matrix(case[1], tier, ctx)
        elif kind == "buffers":
            self.buffer_sweep(tier, ctx)
        elif kind == "sequence":
            self.sequence_orders(0, tier, ctx, only_perm=case[1])
        elif kind == "seqhist":
            self.sequence_histories(tier, ctx, only=case[1])
        elif kind == "round2":
            self.second_round(tier, ctx)
        elif kind == "formats":
            self.formats(case[1], tier, ctx)


_ = sys
CHECK = C17()
# scope added in later rounds, kept in the evidence text
CHECK.rule += ' Sequence histories: the same FASTA path holding another file for the second invocation (caches removed or kept), and the same scaffold name with another rank in the second invocation; compared with the second invocation alone in a fresh process.'
CHECK.rule += ' Also a job that needs lettered chromosome names (SUPER_1A / SUPER_1B) run twice in one process. Buffer sweep also over strings with the ambiguity code R (length <= 6).'
CHECK.rule += ' Second round: every FASTA written by a first run is used as --assembly of a second run, where the first run left it (with and without a .fai made by another tool) and copied alone; same outputs. Generated cases include Primary mode with three haplotypes.'
CHECK.rule += ' API histories: an assembly parsed and formatted, then one or two other inputs parsed in the same process (every ordered pair and triple of 13 small AGP / TPF texts that spell one gap differently: type scaffold / Scaffold / SCAFFOLD / contig / TYPE-2 / TYPE-3, length 100 / 200 / 0200); formatting the held assembly again must give the same AGP and TPF bytes.'
