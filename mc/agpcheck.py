"""Independent validator of AGP text (C06).  Knows nothing about the library's objects."""


def validate_agp(text, expect_lengths=None, expect_objects=None):
    """
    Returns list of (class, detail).  expect_lengths: {object name: length}
    (e.g. Scaffold.length or FASTA record length).  expect_objects: ordered list
    of object names with at least one row.
    """
    errs = []
    cur = None
    pos = 0
    part = 0
    ends = {}
    order = []
    for ln_no, line in enumerate(text.split("\n")):
        if not line.strip() or line.startswith("#"):
            continue
        f = line.split("\t")
        if len(f) < 9:
            errs.append(("agp-too-few-columns", f"line {ln_no}: {line!r}"))
            continue
        obj = f[0]
        if obj != cur:
            if obj in ends:
                # an object name coming back later starts a new object of that name
                pass
            cur = obj
            pos = 0
            part = 0
            order.append(obj)
        try:
            s, e, pn = int(f[1]), int(f[2]), int(f[3])
        except ValueError:
            errs.append(("agp-non-integer", f"line {ln_no}: {line!r}"))
            continue
        part += 1
        if s != pos + 1:
            errs.append(("agp-hole-or-overlap", f"line {ln_no}: object {obj} row starts at {s}, previous row ended at {pos}"))
        if e < s:
            errs.append(("agp-negative-span", f"line {ln_no}: {line!r}"))
        if pn != part:
            errs.append(("agp-part-number", f"line {ln_no}: object {obj} part number {pn}, expected {part}"))
        span = e - s + 1
        if f[4] in ("U", "N"):
            if f[4] != "U":
                errs.append(("agp-gap-not-U", f"line {ln_no}: {line!r}"))
            try:
                glen = int(f[5])
            except ValueError:
                glen = None
            if glen != span:
                errs.append(("agp-gap-span-ne-length", f"line {ln_no}: span {span} gap length {f[5]}"))
            if not f[6]:
                errs.append(("agp-gap-type-missing", f"line {ln_no}: {line!r}"))
            if f[7] != "yes":
                errs.append(("agp-gap-linkage", f"line {ln_no}: {line!r}"))
            if not f[8]:
                errs.append(("agp-gap-evidence-missing", f"line {ln_no}: {line!r}"))
        elif f[4] == "W":
            try:
                cs, ce = int(f[6]), int(f[7])
            except ValueError:
                errs.append(("agp-non-integer", f"line {ln_no}: {line!r}"))
                continue
            if ce - cs + 1 != span:
                errs.append(("agp-object-span-ne-component-span", f"line {ln_no}: object span {span}, component {cs}-{ce}"))
            if cs < 1:
                errs.append(("agp-component-start-lt-1", f"line {ln_no}: {line!r}"))
            if f[8] not in ("+", "-", "?"):
                errs.append(("agp-orientation", f"line {ln_no}: {line!r}"))
            if not f[5]:
                errs.append(("agp-component-id-missing", f"line {ln_no}: {line!r}"))
        else:
            errs.append(("agp-component-type", f"line {ln_no}: {line!r}"))
        pos = e
        ends[obj] = e
    if expect_lengths is not None:
        for obj, ln in expect_lengths.items():
            if ln == 0 and obj not in ends:
                continue
            if ends.get(obj) != ln:
                errs.append(("agp-last-end-ne-length", f"object {obj}: last end {ends.get(obj)} expected length {ln}"))
    if expect_objects is not None and order != list(expect_objects):
        errs.append(("agp-object-order", f"{order!r} expected {list(expect_objects)!r}"))
    return errs
