"""Regenerate /verif/MANIFEST.json from the check modules that exist.
   python -m mc.manifest        (run through ./mkmanifest)"""

import importlib
import json
from pathlib import Path

VERIF = Path(__file__).resolve().parent.parent

PENDING_REASON = "check not built yet in this round (planned, see DESIGN.md section 4)"


def main():
    checks = []
    na = []
    ids = [json.loads(l)["id"] for l in (VERIF / "properties.jsonl").read_text().splitlines() if l.strip()]
    for pid in ids:
        modname = f"mc.checks.c{int(pid[1:]):02d}"
        try:
            chk = importlib.import_module(modname).CHECK
        except ModuleNotFoundError:
            na.append({"property_id": pid, "reason": PENDING_REASON})
            continue
        checks.append(
            {
                "property_id": pid,
                "quick_cmd": f"./check {pid} quick",
                "thorough_cmd": f"./check {pid} thorough",
                "evidence_file": f"/verif/evidence/{pid}.json",
                "replay_cmd_template": f"./check {pid} --replay {{path}}",
                "engine": "mc",
                "level_claimed": {
                    "category": "model_checking",
                    "text": chk.level_text or chk.technique,
                    "design_ref": f"DESIGN.md section 4, {pid}",
                },
                "level_note": "; ".join(chk.assumptions) or "bounded scope only",
                "technique": chk.technique,
            }
        )
    manifest = {
        "version": 1,
        "setup_cmd": "/venv/bin/python -m compileall -q /verif/mc >/dev/null 2>&1; test -x /verif/check",
        "hooks": {
            "guard": "TOLA_VERIF",
            "enable": "no source hooks: the harness monkey-patches module attributes (open/stat/BytesIO/...) in its own process; checks import /repo/src directly via PYTHONPATH",
            "baseline_off_cmd": "cd /repo && /venv/bin/python -m pytest -ra -q -p no:cacheprovider --timeout=900",
            "source_commits": [],
            "add_only": True,
        },
        "engines": [
            {
                "name": "mc",
                "path": "/verif/mc",
                "serves_properties": [c["property_id"] for c in checks],
                "kind_free_text": "hand-written bounded exhaustive explorer for Python: scope enumeration, explicit-state BFS over real objects, controlled scheduler + crash-point enumeration over an in-memory file system",
            }
        ],
        "checks": checks,
        "not_applicable": na,
        "notes": "All checks execute the implementation in /repo/src (current working tree) directly; there is no separate model, so every explored transition is a real-code execution. Known findings: /verif/known_findings.json.",
    }
    (VERIF / "MANIFEST.json").write_text(json.dumps(manifest, indent=1) + "\n")
    print(f"MANIFEST.json: {len(checks)} checks, {len(na)} not_applicable")


if __name__ == "__main__":
    main()
