"""
Engine shared by all checks: deterministic sharding over worker processes,
per-shard watchdog, counters, violation triage against known_findings.json,
replay files, evidence files.

A check module provides a subclass of `Check`.  The deciding step of every
check is the complete enumeration of the shards it declares; the engine never
samples and never drops a shard: if a shard does not finish (watchdog), the
run is reported as not exhaustive / harness error, or - for properties that
demand termination - as a violation carrying the case that was running.
"""

from __future__ import annotations

import hashlib
import json
import multiprocessing as mp
import os
import signal
import subprocess
import sys
import time
import traceback
from pathlib import Path

VERIF = Path(__file__).resolve().parent.parent
# Runs against a deliberately changed tree (tools/seedcheck.py etc.) set VERIF_SCRATCH_OUT so that they
# do not overwrite the evidence of the unchanged tree; the registered commands never set it.
_OUT = Path(os.environ["VERIF_SCRATCH_OUT"]) if os.environ.get("VERIF_SCRATCH_OUT") else VERIF
EVIDENCE_DIR = _OUT / "evidence"
REPLAY_DIR = _OUT / "replays"
FINDINGS_FILE = VERIF / "known_findings.json"

MAX_VIOLATIONS_KEPT_PER_CLASS = 5
MAX_OUTCOMES = 3_000_000


class ShardTimeout(BaseException):
    pass


def h64(obj) -> int:
    """Stable 64 bit hash of a repr-able object (independent of PYTHONHASHSEED)."""
    return int.from_bytes(
        hashlib.blake2b(repr(obj).encode(), digest_size=8).digest(), "big"
    )


class Ctx:
    """Per-shard collector handed to Check.run_shard."""

    def __init__(self, tier, seed):
        self.tier = tier
        self.seed = seed
        self.evaluations = 0  # cases executed on the real code
        self.states = 0
        self.transitions = 0
        self.nontrivial = 0
        self.interest = {}
        self.outcomes = set()
        self.outcomes_saturated = False
        self.violation_count = 0
        self.violations = {}  # klass -> list of dict(case, detail)
        self.violation_counts = {}
        self.samples = []
        self.cur = None  # the case currently being executed (for the watchdog)
        self.extra = {}

    def count(self, name, n=1):
        self.interest[name] = self.interest.get(name, 0) + n

    def outcome(self, obj):
        if len(self.outcomes) < MAX_OUTCOMES:
            self.outcomes.add(obj if isinstance(obj, int) else h64(obj))
        else:
            self.outcomes_saturated = True

    def sample(self, obj, limit=3):
        if len(self.samples) < limit:
            self.samples.append(obj)

    def violation(self, klass, case, detail):
        self.violation_count += 1
        self.violation_counts[klass] = self.violation_counts.get(klass, 0) + 1
        lst = self.violations.setdefault(klass, [])
        if len(lst) < MAX_VIOLATIONS_KEPT_PER_CLASS:
            lst.append({"case": case, "detail": str(detail)[:2000]})

    def export(self):
        return {
            "evaluations": self.evaluations,
            "states": self.states,
            "transitions": self.transitions,
            "nontrivial": self.nontrivial,
            "interest": self.interest,
            "outcomes": self.outcomes,
            "outcomes_saturated": self.outcomes_saturated,
            "violation_count": self.violation_count,
            "violation_counts": self.violation_counts,
            "violations": self.violations,
            "samples": self.samples,
            "extra": self.extra,
        }


class Check:
    pid = "C00"
    technique = ""
    level_text = ""
    assumptions: list[str] = []
    rule = ""
    # a shard that runs longer than this is killed (seconds, per tier)
    shard_timeout = {"quick": 300, "thorough": 3600}
    # does the property demand termination?  then a hang is a violation
    hang_is_violation = False
    workers = 16

    def shards(self, tier):
        """list of picklable shard descriptors"""
        raise NotImplementedError

    def run_shard(self, shard, ctx: Ctx):
        raise NotImplementedError

    def replay(self, case, ctx: Ctx):
        """re-execute one case; report violations into ctx"""
        raise NotImplementedError

    def bounds(self, tier) -> dict:
        return {}

    def finalize(self, tier, merged) -> dict:
        """extra coverage keys computed in the parent"""
        return {}

    def setup_parent(self, tier):
        pass

    def teardown_parent(self):
        pass


# --------------------------------------------------------------------------
# worker side


def _alarm(signum, frame):
    raise ShardTimeout()


def _worker(check_mod, tier, seed, task_q, result_q):
    import logging

    logging.disable(logging.CRITICAL)
    signal.signal(signal.SIGALRM, _alarm)
    try:
        chk = _load(check_mod)
    except BaseException:
        result_q.put(("fatal", None, traceback.format_exc()))
        return
    while True:
        item = task_q.get()
        if item is None:
            break
        idx, shard = item
        ctx = Ctx(tier, seed)
        t0 = time.time()
        try:
            # repeating timer: if the first ShardTimeout is swallowed somewhere it is raised again every 5 s
            signal.setitimer(signal.ITIMER_REAL, chk.shard_timeout[tier], 5)
            try:
                chk.run_shard(shard, ctx)
            finally:
                signal.setitimer(signal.ITIMER_REAL, 0)
            res = ctx.export()
            res["wall"] = time.time() - t0
            result_q.put(("done", idx, res))
        except ShardTimeout:
            res = ctx.export()
            res["wall"] = time.time() - t0
            res["hang_case"] = ctx.cur
            result_q.put(("hang", idx, res))
        except BaseException:
            result_q.put(("error", idx, traceback.format_exc() + f"\ncase={ctx.cur!r}"))


def _load(check_mod) -> Check:
    import importlib

    mod = importlib.import_module(check_mod)
    return mod.CHECK


# --------------------------------------------------------------------------
# findings


def load_findings(pid):
    if not FINDINGS_FILE.exists():
        return []
    data = json.loads(FINDINGS_FILE.read_text())
    return [f for f in data.get("findings", []) if f.get("property") == pid]


def match_open_finding(findings, klass):
    for f in findings:
        if f.get("status") == "open" and klass in f.get("match_classes", []):
            return f
    return None


# --------------------------------------------------------------------------
# parent side


def write_replay(pid, klass, n, payload):
    d = REPLAY_DIR / pid
    d.mkdir(parents=True, exist_ok=True)
    safe = "".join(c if c.isalnum() or c in "-_." else "_" for c in klass)[:80]
    p = d / f"{safe}.{n}.json"
    p.write_text(json.dumps(payload, indent=1, default=repr) + "\n")
    return p


def confirm_replay(pid, path) -> bool:
    """Re-execute a replay file in a fresh interpreter; True if it reproduces."""
    r = subprocess.run(
        [str(VERIF / "check"), pid, "--replay", str(path)],
        capture_output=True,
        text=True,
        timeout=600,
    )
    if r.returncode not in (0, 1):
        raise RuntimeError(f"replay exited {r.returncode}: {(r.stdout + r.stderr)[-800:]}")
    return r.returncode == 1 and "REPRODUCED" in r.stdout


def run(check_mod, tier, seed) -> int:
    chk = _load(check_mod)
    pid = chk.pid
    t0 = time.time()
    ev_path = EVIDENCE_DIR / f"{pid}.json"
    EVIDENCE_DIR.mkdir(parents=True, exist_ok=True)
    if ev_path.exists():
        ev_path.unlink()

    chk.setup_parent(tier)
    try:
        shards = list(chk.shards(tier))
        n = len(shards)
        order = list(range(n))
        if n:
            rot = seed % n
            order = order[rot:] + order[:rot]

        nworkers = max(1, min(chk.workers, n, int(os.environ.get("VERIF_WORKERS", "16"))))
        mctx = mp.get_context("fork")
        task_q = mctx.Queue()
        result_q = mctx.Queue()
        procs = [
            mctx.Process(
                target=_worker, args=(check_mod, tier, seed, task_q, result_q), daemon=True
            )
            for _ in range(nworkers)
        ]
        for i in order:
            task_q.put((i, shards[i]))
        for _ in procs:
            task_q.put(None)
        for p in procs:
            p.start()

        merged = Ctx(tier, seed)
        done = 0
        hangs = []
        errors = []
        shard_walls = []
        hard_deadline = time.time() + chk.shard_timeout[tier] * (1 + n / nworkers) + 120
        while done < n:
            try:
                kind, idx, res = result_q.get(timeout=5)
            except Exception:
                if not any(p.is_alive() for p in procs) and result_q.empty():
                    errors.append("workers exited before all shards were done")
                    break
                if time.time() > hard_deadline:
                    errors.append("hard deadline reached")
                    break
                continue
            if kind == "fatal":
                errors.append(res)
                break
            done += 1
            if kind == "error":
                errors.append(f"shard {idx}: {res}")
                continue
            if kind == "hang":
                hangs.append((idx, res.get("hang_case")))
            _merge(merged, res)
            shard_walls.append(round(res["wall"], 2))
            if os.environ.get("VERIF_STOP_EARLY") and any(match_open_finding(load_findings(pid), k) is None for k in merged.violations):
                # regression tooling only (tools/seedall_wt.py): a deliberately broken tree needs one confirmed violation,
                # not the whole scope.  The registered commands never set this.
                errors.append("stopped early after the first violation (VERIF_STOP_EARLY)")
                for p in procs:
                    p.kill()
                break
        for p in procs:
            p.join(timeout=5)
            if p.is_alive():
                p.kill()
    finally:
        chk.teardown_parent()

    exhaustive = not hangs and not errors and done == n
    findings = load_findings(pid)

    # ---- triage
    status = 0
    lines = []
    if hangs and chk.hang_is_violation:
        for idx, case in hangs:
            merged.violation("hang", case, f"shard {idx} did not terminate within watchdog")
    known_hits = {}
    new_viol = []
    for klass, lst in sorted(merged.violations.items()):
        f = match_open_finding(findings, klass)
        if f is not None:
            known_hits.setdefault(f["id"], [f, 0])
            known_hits[f["id"]][1] += merged.violation_counts.get(klass, len(lst))
        else:
            new_viol.append((klass, lst))

    for fid, (f, cnt) in sorted(known_hits.items()):
        lines.append(
            f"KNOWN-FINDING: property={pid} {fid}: {f['what']} ({cnt} cases in this run)"
        )

    reported = 0
    unreproduced = []
    for klass, lst in new_viol:
        confirmed = None
        for k, v in enumerate(lst[:2]):
            payload = {
                "property": pid,
                "class": klass,
                "detail": v["detail"],
                "case": v["case"],
                "tier": tier,
            }
            path = write_replay(pid, klass, k, payload)
            try:
                ok = confirm_replay(pid, path)
            except Exception as e:  # noqa: BLE001
                ok = False
                unreproduced.append(f"{path}: replay failed to run: {e}")
            if ok:
                confirmed = path
                break
            unreproduced.append(str(path))
        if confirmed:
            cnt = merged.violation_counts.get(klass, len(lst))
            lines.append(f"VIOLATION property={pid} replay={confirmed}")
            lines.append(f"  class={klass} count={cnt} detail={lst[0]['detail'][:400]}")
            reported += 1
            status = 1

    if unreproduced and status == 0:
        status = 2
        lines.append(
            "HARNESS-ERROR: violation(s) did not reproduce from their replay file: "
            + ", ".join(unreproduced[:3])
        )
    if errors:
        status = status or 2
        for e in errors[:3]:
            lines.append("HARNESS-ERROR: " + e[-3000:])
    if hangs and not chk.hang_is_violation:
        status = status or 2
        lines.append(f"HARNESS-ERROR: {len(hangs)} shard(s) hit the watchdog: {hangs[:2]!r}")

    wall = time.time() - t0
    cov = {
        "states": merged.states or merged.evaluations,
        "transitions": merged.transitions or merged.evaluations,
        "traces_validated_against_impl": merged.transitions or merged.evaluations,
        "evaluations": merged.evaluations,
        "distinct_nontrivial": merged.nontrivial,
        "distinct_outcomes": len(merged.outcomes),
        "distinct_outcomes_saturated": merged.outcomes_saturated,
        "rule": chk.rule,
        "samples": merged.samples[:6] or ["(no sample recorded)"],
        "exhaustive": bool(exhaustive),
        "bounds": chk.bounds(tier),
        "interest": dict(sorted(merged.interest.items())),
        "shards": n,
        "shards_completed": done,
        "workers": nworkers,
        "max_shard_wall_s": max(shard_walls) if shard_walls else 0,
        "explanation": (
            "exploration executes the implementation itself (no separate model): "
            "traces_validated_against_impl counts real-code executions"
        ),
        "known_finding_cases": {k: v[1] for k, v in known_hits.items()},
        "violation_classes": dict(sorted(merged.violation_counts.items())),
    }
    cov.update(merged.extra)
    cov.update(chk.finalize(tier, merged) or {})
    evidence = {
        "property_id": pid,
        "tier": tier,
        "seed": seed,
        "level": "model_checking",
        "coverage": cov,
        "assumptions": list(chk.assumptions),
        "wall_s": round(wall, 2),
        "violations": reported,
    }
    ev_path.write_text(json.dumps(evidence, indent=1, default=repr) + "\n")

    print(
        f"[{pid} {tier}] cases={merged.evaluations} states={cov['states']} "
        f"transitions={cov['transitions']} nontrivial={merged.nontrivial} "
        f"outcomes={len(merged.outcomes)} shards={done}/{n} wall={wall:.1f}s "
        f"exhaustive={exhaustive}"
    )
    if merged.interest:
        print("  interest: " + ", ".join(f"{k}={v}" for k, v in sorted(merged.interest.items())))
    for ln in lines:
        print(ln)
    sys.stdout.flush()
    return status


def _merge(m: Ctx, res):
    m.evaluations += res["evaluations"]
    m.states += res["states"]
    m.transitions += res["transitions"]
    m.nontrivial += res["nontrivial"]
    for k, v in res["interest"].items():
        m.interest[k] = m.interest.get(k, 0) + v
    if len(m.outcomes) < MAX_OUTCOMES:
        m.outcomes |= res["outcomes"]
    else:
        m.outcomes_saturated = True
    m.outcomes_saturated |= res["outcomes_saturated"]
    m.violation_count += res["violation_count"]
    for k, v in res["violation_counts"].items():
        m.violation_counts[k] = m.violation_counts.get(k, 0) + v
    for k, lst in res["violations"].items():
        cur = m.violations.setdefault(k, [])
        for v in lst:
            if len(cur) < MAX_VIOLATIONS_KEPT_PER_CLASS:
                cur.append(v)
    for s in res["samples"]:
        if len(m.samples) < 6:
            m.samples.append(s)
    for k, v in res.get("extra", {}).items():
        if isinstance(v, (int, float)) and isinstance(m.extra.get(k, 0), (int, float)):
            # extras are merged by max unless prefixed sum_
            if k.startswith("sum_"):
                m.extra[k] = m.extra.get(k, 0) + v
            else:
                m.extra[k] = max(m.extra.get(k, v), v)
        else:
            m.extra.setdefault(k, v)


def run_replay(check_mod, path) -> int:
    import logging

    logging.disable(logging.CRITICAL)
    chk = _load(check_mod)
    payload = json.loads(Path(path).read_text())
    ctx = Ctx(payload.get("tier", "quick"), 0)
    signal.signal(signal.SIGALRM, _alarm)
    signal.setitimer(signal.ITIMER_REAL, 60)
    try:
        chk.replay(payload["case"], ctx)
    except ShardTimeout:
        ctx.violation("hang", payload["case"], "replay did not terminate in 60 s")
    finally:
        signal.setitimer(signal.ITIMER_REAL, 0)
    want = payload.get("class")
    if ctx.violation_count:
        got = sorted(ctx.violations)
        for k in got:
            print(f"  class={k} detail={ctx.violations[k][0]['detail'][:1500]}")
        if want is None or want in ctx.violations:
            print(f"REPRODUCED property={chk.pid} class={want} replay={path}")
            return 1
        print(f"REPRODUCED-DIFFERENT-CLASS property={chk.pid} want={want} got={got}")
        return 1
    print(f"NOT-REPRODUCED property={chk.pid} replay={path}")
    return 0
