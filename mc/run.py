"""Entry point:  python -m mc.run CNN quick|thorough   |   CNN --replay <file>"""

import os
import sys

from mc import engine

MODULES = {f"C{n:02d}": f"mc.checks.c{n:02d}" for n in range(1, 21)}


def main(argv):
    if len(argv) < 2:
        print(__doc__)
        return 2
    pid = argv[0].upper()
    mod = MODULES.get(pid)
    if mod is None:
        print(f"unknown check {pid}")
        return 2
    if argv[1] == "--replay":
        return engine.run_replay(mod, argv[2])
    tier = argv[1]
    if tier not in ("quick", "thorough"):
        print(f"unknown tier {tier}")
        return 2
    seed = int(os.environ.get("VERIF_SEED", "0") or 0)
    return engine.run(mod, tier, seed)


if __name__ == "__main__":
    sys.exit(main(sys.argv[1:]))
