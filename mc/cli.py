"""Helpers to drive the real command line tools in-process on scratch files."""

import io
import shutil
import tempfile
from pathlib import Path

from mc import pv


def scratch(prefix="verif_"):
    base = "/dev/shm" if Path("/dev/shm").is_dir() else None
    return Path(tempfile.mkdtemp(prefix=prefix, dir=base))


def cleanup(d):
    shutil.rmtree(d, ignore_errors=True)


def sequences_for(inp):
    """
    deterministic residues for FASTA-style inputs: {scaffold name: bytes}; contig
    bases are a position-dependent ACGT pattern (mixed case), gaps are N
    """
    seqs = {}
    for si, (name, rows) in enumerate(inp):
        out = bytearray()
        for r in rows:
            if r[0] == "G":
                out += b"N" * r[1]
            else:
                for p in range(r[2], r[3] + 1):
                    out.append(b"ACGTacgt"[(p * 7 + si * 3 + (p // 5)) % 8])
        seqs[name] = bytes(out)
    return seqs


def write_fasta(path, inp, width=60, eol=b"\n"):
    seqs = sequences_for(inp)
    with open(path, "wb") as fh:
        for name, seq in seqs.items():
            fh.write(b">" + name.encode() + eol)
            for i in range(0, len(seq), width):
                fh.write(seq[i : i + width] + eol)
    return seqs


def write_tpf(path, inp):
    from tola.assembly.assembly import Assembly
    from tola.assembly.format import format_tpf
    from tola.assembly.scaffold import Scaffold

    asm = Assembly("x", scaffolds=[Scaffold(n, pv.rows_to_objs(rows)) for n, rows in inp])
    out = io.StringIO()
    format_tpf(asm, out)
    Path(path).write_text(out.getvalue())


def write_agp(path, inp):
    from tola.assembly.assembly import Assembly
    from tola.assembly.format import format_agp
    from tola.assembly.scaffold import Scaffold

    asm = Assembly("x", scaffolds=[Scaffold(n, pv.rows_to_objs(rows)) for n, rows in inp])
    out = io.StringIO()
    format_agp(asm, out)
    Path(path).write_text(out.getvalue())


def write_pretext(path, pvspec):
    Path(path).write_text(pv.pretext_agp_text(pvspec))


def invoke_p2a(args):
    from click.testing import CliRunner

    from tola.assembly.scripts.pretext_to_asm import cli

    r = CliRunner().invoke(cli, [str(a) for a in args])
    try:
        err = r.stderr
    except ValueError:
        err = r.output
    return r.exit_code, r.stdout if hasattr(r, "stdout") else r.output, err, r.exception


def dir_files(d, exclude=()):
    out = {}
    for p in sorted(Path(d).iterdir()):
        if p.is_file() and p.name not in exclude:
            out[p.name] = p.read_bytes()
    return out
