"""
Reference model for FASTA files: files are *generated* from
(records, width, EOL, final newline), so the expected faidx quintuples, run
lists and every interval are known by construction.  Expected stream output is
plain slicing with an independently written complement table.
"""

import io
import re

COMP = {}
for _a, _b in zip("ACGTRYMKSWHBVDN", "TGCAYRKMSWDVBHN"):
    COMP[ord(_a)] = ord(_b)
    COMP[ord(_a.lower())] = ord(_b.lower())
COMP_TABLE = bytes(COMP.get(i, i) for i in range(256))


def ref_revcomp(b: bytes) -> bytes:
    return bytes(COMP_TABLE[x] for x in reversed(b))


class MemPath:
    """Just enough of pathlib.Path for index_fasta_file / FastaIndex, in memory."""

    def __init__(self, data: bytes, name="t.fa", monitor=None):
        self.data = data
        self._name = name
        self.monitor = monitor

    @property
    def name(self):
        return self._name

    def exists(self):
        return True

    def absolute(self):
        return self

    def __str__(self):
        return "/mem/" + self._name

    def open(self, mode="r"):
        assert mode == "rb", mode
        if self.monitor is not None:
            return MonitoredReader(self.data, self.monitor)
        return io.BytesIO(self.data)


class MonitoredReader(io.BytesIO):
    def __init__(self, data, monitor):
        super().__init__(data)
        self.monitor = monitor

    def read(self, n=-1):
        got = super().read(n)
        if n is None or n < 0:
            self.monitor["max_read"] = max(self.monitor.get("max_read", 0), len(got))
            self.monitor["unbounded_reads"] = self.monitor.get("unbounded_reads", 0) + 1
        else:
            self.monitor["max_read"] = max(self.monitor.get("max_read", 0), n)
        return got


def make_fasta(records, eol=b"\n", final_newline=True, desc=False, blank_between=False):
    """
    records: list of (name, seq bytes, width).  Returns (file bytes, expected
    quintuples {name: (length, offset, rpl, bpl)}).
    """
    out = io.BytesIO()
    exp = {}
    last = len(records) - 1
    for i, (name, seq, width) in enumerate(records):
        out.write(b">" + name.encode())
        if desc is True:
            out.write(b" some description 1-2")
        elif desc:
            out.write(desc)  # bytes appended to the header line as they are (e.g. trailing blank or tab)
        out.write(eol)
        off = out.tell()
        lines = [seq[k : k + width] for k in range(0, len(seq), width)]
        for j, ln in enumerate(lines):
            out.write(ln)
            if not (i == last and j == len(lines) - 1 and not final_newline):
                out.write(eol)
        if blank_between and i != last:
            out.write(eol)  # an empty line between two records (common in concatenated files)
        rpl = min(width, len(seq))
        exp[name] = (len(seq), off, rpl, rpl + len(eol))
    return out.getvalue(), exp


def expected_runs(name, seq):
    """maximal ACGT runs -> ("F", name, start, end, 1); others -> ("G", len, "scaffold")"""
    rows = []
    pos = 0
    for m in re.finditer(rb"[ACGTacgt]+|[^ACGTacgt]+", seq):
        s, e = m.span()
        assert s == pos
        pos = e
        if seq[s : s + 1] in b"ACGTacgt":
            rows.append(("F", name, s + 1, e, 1))
        else:
            rows.append(("G", e - s, "scaffold"))
    return rows


def rows_of(scffld):
    from tola.assembly.gap import Gap

    return [
        ("G", r.length, r.gap_type) if isinstance(r, Gap) else ("F", r.name, r.start, r.end, r.strand)
        for r in scffld.rows
    ]


def wrap(seq: bytes, line_length: int) -> bytes:
    return b"".join(seq[i : i + line_length] + b"\n" for i in range(0, len(seq), line_length))


def expected_scaffold_seq(seqs, rows, gapchar=b"N") -> bytes:
    """rows: ("F", name, start, end, strand) | ("G", len, type)"""
    out = []
    for r in rows:
        if r[0] == "G":
            out.append(gapchar * r[1])
        else:
            _, name, s, e, strand = r
            piece = seqs[name][s - 1 : e]
            out.append(ref_revcomp(piece) if strand == -1 else piece)
    return b"".join(out)


def expected_stream(seqs, scaffolds, line_length, gapchar=b"N") -> bytes:
    """scaffolds: list of (name, rows)"""
    out = []
    for name, rows in scaffolds:
        out.append(b">" + name.encode() + b"\n" + wrap(expected_scaffold_seq(seqs, rows, gapchar), line_length))
    return b"".join(out)


def build_scaffold(name, rows):
    from tola.assembly.fragment import Fragment
    from tola.assembly.gap import Gap
    from tola.assembly.scaffold import Scaffold

    return Scaffold(
        name,
        [Gap(r[1], r[2]) if r[0] == "G" else Fragment(r[1], r[2], r[3], r[4], tuple(r[5]) if len(r) > 5 else ()) for r in rows],
    )
