#!/usr/bin/env python3
"""
Regression pass over every kept seeded change, several at a time: each change is applied in a scratch git worktree of
/repo (never in /repo itself) and the quick check of its property is run against that tree through VERIF_REPO.
Every change was confirmed and first measured with tools/seedcheck.py (the apply-to-/repo protocol); this pass only
re-measures detection after later edits of the checks.  Results: seeded/<id>/meta.json ("regression") and
seeded/REGRESSION.tsv.

  tools/seedall_wt.py [jobs] [id-prefix ...]
"""
import json
import os
import subprocess
import sys
import time
from concurrent.futures import ThreadPoolExecutor
from pathlib import Path

VERIF = Path(__file__).resolve().parent.parent


def one(sid):
    d = VERIF / "seeded" / sid
    meta = json.loads((d / "meta.json").read_text())
    prop = meta.get("breaks_property") or sid.split("_")[0]
    if sid.startswith("revert_"):
        prop = next(iter(meta.get("checks", {})), None)
    wt = Path(f"/tmp/wt/sa_{sid}")
    subprocess.run(f"git -C /repo worktree remove --force {wt}", shell=True, capture_output=True)
    r = subprocess.run(f"git -C /repo worktree add --detach {wt} HEAD", shell=True, capture_output=True, text=True)
    if r.returncode != 0:
        return sid, prop, "worktree-failed", 0
    try:
        r = subprocess.run(f"git apply {d / 'patch.diff'}", shell=True, cwd=wt, capture_output=True, text=True)
        if r.returncode != 0:
            return sid, prop, "patch-does-not-apply", 0
        env = dict(os.environ, VERIF_REPO=str(wt), VERIF_SCRATCH_OUT=f"/tmp/verif_seed_out/{sid}", VERIF_STOP_EARLY="1")
        t0 = time.time()
        r = subprocess.run(["nice", "-n", "10", "./check", prop, "quick"], cwd=VERIF, env=env, capture_output=True, text=True, timeout=7200)
        viol = [ln for ln in r.stdout.splitlines() if ln.startswith("VIOLATION")]
        detail = [ln.strip() for ln in r.stdout.splitlines() if ln.strip().startswith("class=")][:2]
        res = "detected" if (viol and r.returncode in (1, 2)) else f"MISSED(exit {r.returncode})"
        meta["regression"] = {"check": prop, "result": res, "detail": [x[:300] for x in detail], "wall_s": round(time.time() - t0, 1), "how": "scratch worktree of /repo HEAD + patch, VERIF_REPO=<worktree> ./check <id> quick"}
        (d / "meta.json").write_text(json.dumps(meta, indent=1) + "\n")
        return sid, prop, res, round(time.time() - t0, 1)
    finally:
        subprocess.run(f"git -C /repo worktree remove --force {wt}", shell=True, capture_output=True)
        subprocess.run(f"rm -rf /tmp/verif_seed_out/{sid}", shell=True)


def main():
    jobs = int(sys.argv[1]) if len(sys.argv) > 1 else 3
    prefixes = sys.argv[2:]
    ids = sorted(p.name for p in (VERIF / "seeded").iterdir() if (p / "patch.diff").exists() and (p / "meta.json").exists())
    if prefixes:
        ids = [i for i in ids if any(i.startswith(p) for p in prefixes)]
    ids = [i for i in ids if not i.startswith("revert_")]
    out = VERIF / "seeded" / "REGRESSION.tsv"
    done = {}
    if out.exists():
        for ln in out.read_text().splitlines():
            f = ln.split("\t")
            if len(f) >= 3:
                done[f[0]] = f
    with ThreadPoolExecutor(jobs) as ex:
        for sid, prop, res, wall in ex.map(one, ids):
            done[sid] = [sid, prop, res, str(wall)]
            print(sid, prop, res, wall, flush=True)
            out.write_text("".join("\t".join(v) + "\n" for _, v in sorted(done.items())))


if __name__ == "__main__":
    main()
