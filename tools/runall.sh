#!/bin/bash
# tools/runall.sh [quick|thorough] [ids...] : run checks sequentially, one summary line each
tier=${1:-quick}; shift
ids=${@:-C01 C02 C03 C04 C05 C06 C07 C08 C09 C10 C11 C12 C13 C14 C15 C16 C17 C18 C19 C20}
cd "$(dirname "$0")/.."   # the copy this script belongs to (a vp run snapshot, or /verif)
for id in $ids; do
  s=$(date +%s)
  out=$(./check $id $tier 2>&1); rc=$?
  e=$(date +%s)
  echo "$id rc=$rc $((e-s))s $(echo "$out" | grep -E '^\[' | head -1 | cut -c1-150)"
  echo "$out" | grep -E "VIOLATION|HARNESS|KNOWN-FINDING" | cut -c1-200
done
