#!/usr/bin/env python3
"""
Confirm and measure NEW seeded changes, several at a time, each in its own scratch git worktree of /repo HEAD
(never in /repo itself): demo passes without the patch; with the patch the pinned suite passes and the demo fails;
then the quick check of the property is run against the patched worktree through VERIF_REPO (same code path as a
patched /repo: every check reads the tree named by VERIF_REPO, default /repo).

  tools/seednew_wt.py <jobs> <src-root> <label> [Cnn ...]      src-root/Cnn/<label>/{patch.diff,demo.py,notes.md}

Writes seeded/Cnn_<label>/{patch.diff,demo.py,notes.md,meta.json}.  Re-measure only (after a strengthening):
  SEED_SKIP_CONFIRM=1 tools/seednew_wt.py ...
"""
import json
import os
import shutil
import subprocess
import sys
import time
from concurrent.futures import ThreadPoolExecutor
from pathlib import Path

VERIF = Path(__file__).resolve().parent.parent
PY = "/venv/bin/python"


def sh(cmd, cwd=None, env=None, timeout=3600):
    e = dict(os.environ)
    if env:
        e.update(env)
    r = subprocess.run(cmd, shell=True, cwd=cwd, env=e, capture_output=True, text=True, timeout=timeout)
    return r.returncode, (r.stdout + r.stderr)


def one(args):
    src, sid, prop = args
    dst = VERIF / "seeded" / sid
    skip = os.environ.get("SEED_SKIP_CONFIRM") == "1" and (dst / "meta.json").exists()
    meta = json.loads((dst / "meta.json").read_text()) if skip else {
        "id": sid, "breaks_property": prop,
        "source": "independent sub-agent given only the property text and a scratch worktree"}
    patch = (dst if skip else src) / "patch.diff"
    demo = (dst if skip else src) / "demo.py"
    wt = Path(f"/tmp/wt/sn_{sid}")
    sh(f"git -C /repo worktree remove --force {wt}")
    rc, out = sh(f"git -C /repo worktree add --detach {wt} HEAD")
    if rc != 0:
        return sid, "worktree-failed", out[-200:]
    try:
        env = {"PYTHONPATH": f"{wt}/src", "PYTHONDONTWRITEBYTECODE": "1"}
        if not skip:
            rc0, _ = sh(f"{PY} {demo}", cwd=wt, env=env, timeout=900)
            meta["demo_without_patch_exit"] = rc0
        rc, out = sh(f"git apply {patch}", cwd=wt)
        meta["patch_applies"] = rc == 0
        if rc != 0:
            meta["apply_error"] = out[-1000:]
        elif not skip:
            rct, outt = sh(f"{PY} -m pytest -q -p no:cacheprovider -x", cwd=wt, env=env, timeout=1800)
            meta["tests_with_patch_exit"] = rct
            meta["tests_with_patch_tail"] = outt.strip().splitlines()[-1:] if outt.strip() else []
            rc1, out1 = sh(f"{PY} {demo}", cwd=wt, env=env, timeout=900)
            meta["demo_with_patch_exit"] = rc1
            meta["demo_with_patch_tail"] = out1.strip().splitlines()[-3:]
            sh("find . -name __pycache__ -prune -exec rm -rf {} + ; rm -rf .pytest_cache", cwd=wt)
        confirmed = bool(meta.get("patch_applies") and meta.get("demo_without_patch_exit") == 0
                         and meta.get("tests_with_patch_exit") == 0 and meta.get("demo_with_patch_exit") not in (0, None))
        meta["confirmed"] = confirmed
        res = "unconfirmed"
        if confirmed:
            t0 = time.time()
            e = {"VERIF_REPO": str(wt), "VERIF_SCRATCH_OUT": f"/tmp/verif_seed_out/{sid}", "VERIF_STOP_EARLY": "1"}
            rcc, outc = sh(f"nice -n 5 ./check {prop} quick", cwd=VERIF, env=e, timeout=7200)
            viol = [ln for ln in outc.splitlines() if ln.startswith("VIOLATION")]
            detail = [ln.strip() for ln in outc.splitlines() if ln.strip().startswith("class=")][:3]
            det = rcc == 1 and bool(viol)
            res = "detected" if det else f"MISSED(exit {rcc})"
            entry = {"exit": rcc, "detected": det, "violation_lines": viol[:3], "detail": [d[:300] for d in detail],
                     "wall_s": round(time.time() - t0, 1), "tier": "quick"}
            if rcc not in (0, 1):
                entry["tail"] = outc[-800:]
            hist = meta.setdefault("checks", {})
            if prop in hist and not hist[prop].get("detected") and det:
                entry["first_measurement"] = "missed; detected after the strengthening recorded in DESIGN.md"
            elif prop in hist and "first_measurement" in hist[prop]:
                entry["first_measurement"] = hist[prop]["first_measurement"]
            hist[prop] = entry
        meta["what_i_ran"] = [
            "scratch worktree of /repo HEAD: demo.py without patch (must exit 0); git apply patch; pytest -q (must pass); demo.py with patch (must exit != 0)",
            "same worktree with the patch applied: VERIF_REPO=<worktree> ./check <id> quick (stopped at the first confirmed violation); worktree removed",
        ]
        dst.mkdir(parents=True, exist_ok=True)
        if not skip:
            shutil.copy(patch, dst / "patch.diff")
            shutil.copy(demo, dst / "demo.py")
            if (src / "notes.md").exists():
                shutil.copy(src / "notes.md", dst / "notes.md")
                meta["needs_to_manifest"] = "see notes.md"
        (dst / "meta.json").write_text(json.dumps(meta, indent=1) + "\n")
        return sid, res, (meta.get("checks", {}).get(prop, {}).get("detail") or [""])[0][:160]
    finally:
        sh(f"git -C /repo worktree remove --force {wt}")
        sh(f"rm -rf /tmp/verif_seed_out/{sid}")


def main():
    jobs = int(sys.argv[1])
    root = Path(sys.argv[2])
    label = sys.argv[3]
    props = sys.argv[4:] or sorted(p.name for p in root.iterdir() if (p / label / "notes.md").exists())
    work = [(root / p / label, f"{p}_{label}", p) for p in props]
    with ThreadPoolExecutor(jobs) as ex:
        for r in ex.map(one, work):
            print(*r, flush=True)


if __name__ == "__main__":
    main()
