#!/usr/bin/env python3
"""tools/mutantrun.py M01:C01,C02 M05:C07 ...  -> apply mutants/<id>.diff to /repo, run the listed quick checks, undo; results in mutants/RESULTS.json"""
import json, os, subprocess, sys, time
from pathlib import Path
REPO = os.environ.get("VERIF_REPO", "/repo")  # a snapshot for background runs (vp run --with-repo), else /repo itself
V = Path(__file__).resolve().parent.parent
res_file = V / "mutants" / "RESULTS.json"
res = json.loads(res_file.read_text()) if res_file.exists() else {}
def sh(c, cwd=None):
    r = subprocess.run(c, shell=True, cwd=cwd, capture_output=True, text=True)
    return r.returncode, r.stdout + r.stderr
for arg in sys.argv[1:]:
    mid, checks = arg.split(":")
    rc, out = sh("git status --porcelain --untracked-files=no", REPO)
    assert not out.strip(), "/repo dirty"
    rc, out = sh(f"git apply {V}/mutants/{mid}.diff", REPO)
    if rc != 0:
        print(mid, "does not apply", out); continue
    try:
        for c in checks.split(","):
            t0 = time.time()
            rc, out = sh(f"VERIF_SCRATCH_OUT=/tmp/verif_seed_out ./check {c} quick", V)
            det = [l.strip() for l in out.splitlines() if l.strip().startswith("class=")][:2]
            res.setdefault(mid, {})[c] = {"exit": rc, "detected": rc == 1, "detail": [d[:300] for d in det], "wall_s": round(time.time() - t0, 1)}
            print(mid, c, "exit", rc, "DETECTED" if rc == 1 else "missed", (det[0][:160] if det else ""))
            if rc not in (0, 1):
                print(out[-800:])
    finally:
        sh("git checkout -- .", REPO)
    res_file.write_text(json.dumps(res, indent=1, sort_keys=True) + "\n")
sh("rm -rf replays/*", V)
