#!/bin/bash
# re-run every kept seeded change against the check of the property it breaks (confirmation step skipped)
cd /verif
for d in seeded/C*_*; do
  sid=$(basename $d); p=${sid%%_*}
  SEED_SKIP_CONFIRM=1 tools/seedcheck.py $d $sid $p "$@" 2>&1 | grep -E "detected|MISSED|exit" | grep -v '^{' | sed "s/^/$sid: /" | cut -c1-220
done
