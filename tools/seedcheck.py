#!/usr/bin/env python3
"""
Confirm a seeded change and run checks against it.

  tools/seedcheck.py <src dir with patch.diff+demo.py[+notes.md]> <seed id> <property> [check ...]

1. scratch worktree of /repo HEAD (under /tmp): demo passes without the patch;
   with the patch the pinned test suite still passes and the demo fails.
2. apply the patch to /repo, run ./check <check> quick for each listed check
   (default: the property's own), undo with git checkout.
3. write /verif/seeded/<seed id>/{patch.diff,demo.py,notes.md,meta.json}
"""
import json
import os
import shutil
import subprocess
import sys
import time
from pathlib import Path

VERIF = Path(__file__).resolve().parent.parent
PY = "/venv/bin/python"


def sh(cmd, cwd=None, env=None, timeout=3600):
    e = dict(os.environ)
    if env:
        e.update(env)
    r = subprocess.run(cmd, shell=True, cwd=cwd, env=e, capture_output=True, text=True, timeout=timeout)
    return r.returncode, (r.stdout + r.stderr)


def main():
    src = Path(sys.argv[1])
    sid = sys.argv[2]
    prop = sys.argv[3]
    checks = sys.argv[4:] or [prop]
    tier = os.environ.get("SEED_TIER", "quick")
    patch = (src / "patch.diff").resolve()
    demo = (src / "demo.py").resolve()
    meta = {"id": sid, "breaks_property": prop, "source": "independent sub-agent given only the property text and a scratch worktree"}

    rc, out = sh("git -C /repo status --porcelain --untracked-files=no")
    if out.strip():
        sys.exit("/repo has uncommitted changes; refusing")

    skip_confirm = os.environ.get("SEED_SKIP_CONFIRM") == "1" and (VERIF / "seeded" / sid / "meta.json").exists()
    if skip_confirm:
        old_meta = json.loads((VERIF / "seeded" / sid / "meta.json").read_text())
        for k in ("demo_without_patch_exit", "patch_applies", "tests_with_patch_exit", "tests_with_patch_tail", "demo_with_patch_exit", "demo_with_patch_tail", "confirmed"):
            if k in old_meta:
                meta[k] = old_meta[k]
    wt = Path(f"/tmp/wt/verify_{sid}")
    if wt.exists():
        sh(f"git -C /repo worktree remove --force {wt}")
    if not skip_confirm:
        rc, out = sh(f"git -C /repo worktree add --detach {wt} HEAD")
        assert rc == 0, out
    try:
        if skip_confirm:
            raise StopIteration
        env = {"PYTHONPATH": f"{wt}/src", "PYTHONDONTWRITEBYTECODE": "1"}
        rc0, out0 = sh(f"{PY} {demo}", cwd=wt, env=env, timeout=900)
        meta["demo_without_patch_exit"] = rc0
        rc, out = sh(f"git apply {patch}", cwd=wt)
        if rc != 0:
            rc, out = sh(f"git apply --3way {patch}", cwd=wt)
        meta["patch_applies"] = rc == 0
        if rc != 0:
            print("PATCH DOES NOT APPLY:", out)
            meta["apply_error"] = out[-2000:]
        else:
            rct, outt = sh(f"{PY} -m pytest -q -p no:cacheprovider -x", cwd=wt, env=env, timeout=1800)
            meta["tests_with_patch_exit"] = rct
            meta["tests_with_patch_tail"] = outt.strip().splitlines()[-1:] if outt.strip() else []
            rc1, out1 = sh(f"{PY} {demo}", cwd=wt, env=env, timeout=900)
            meta["demo_with_patch_exit"] = rc1
            meta["demo_with_patch_tail"] = out1.strip().splitlines()[-3:]
    except StopIteration:
        pass
    finally:
        if not skip_confirm:
            sh(f"git -C /repo worktree remove --force {wt}")
    confirmed = (
        meta.get("patch_applies")
        and meta.get("demo_without_patch_exit") == 0
        and meta.get("tests_with_patch_exit") == 0
        and meta.get("demo_with_patch_exit") not in (0, None)
    )
    meta["confirmed"] = bool(confirmed)
    print(json.dumps({k: meta[k] for k in meta if k.endswith("exit") or k in ("confirmed", "patch_applies")}))
    results = {}
    if confirmed:
        rc, out = sh(f"git apply {patch}", cwd="/repo")
        if rc != 0:
            print("PATCH DOES NOT APPLY TO /repo (rebase it by hand):", out[-500:])
            meta["apply_error_repo"] = out[-1000:]
            checks = []
        try:
            for c in checks:
                t0 = time.time()
                rcc, outc = sh(f"./check {c} {tier}", cwd=VERIF, timeout=7200, env={"VERIF_SCRATCH_OUT": "/tmp/verif_seed_out"})
                viol = [ln for ln in outc.splitlines() if ln.startswith("VIOLATION")]
                results[c] = {
                    "exit": rcc,
                    "detected": rcc == 1 and bool(viol),
                    "violation_lines": viol[:4],
                    "detail": [ln.strip() for ln in outc.splitlines() if ln.strip().startswith("class=")][:4],
                    "wall_s": round(time.time() - t0, 1),
                    "tier": tier,
                }
                print(c, "exit", rcc, "detected" if results[c]["detected"] else "MISSED", results[c]["detail"][:1])
                if rcc not in (0, 1):
                    print(outc[-1500:])
        finally:
            sh("git checkout -- . && git clean -fdq src tests", cwd="/repo")
            rc_, out_ = sh("git status --porcelain --untracked-files=no", cwd="/repo")
            if out_.strip():
                sh("git reset -q --hard HEAD", cwd="/repo")
            # remove replay files written for the seeded violation
        rc, out = sh("git -C /repo status --porcelain --untracked-files=no")
        assert not out.strip(), out
    meta["checks"] = results
    meta["what_i_ran"] = [
        "scratch worktree of /repo HEAD: demo.py without patch (must exit 0); git apply patch; pytest -q (must pass); demo.py with patch (must exit != 0)",
        "git -C /repo apply patch.diff; ./check <id> quick for the listed checks; git -C /repo checkout -- .",
    ]
    dst = VERIF / "seeded" / sid
    dst.mkdir(parents=True, exist_ok=True)
    if src.resolve() != dst.resolve():
        shutil.copy(patch, dst / "patch.diff")
        shutil.copy(demo, dst / "demo.py")
    if (src / "notes.md").exists():
        if src.resolve() != dst.resolve():
            shutil.copy(src / "notes.md", dst / "notes.md")
        notes = (src / "notes.md").read_text()
        meta["needs_to_manifest"] = "see notes.md"
    old = {}
    if (dst / "meta.json").exists():
        old = json.loads((dst / "meta.json").read_text())
        prev = old.get("checks", {})
        prev.update(results)
        meta["checks"] = prev
        for k in ("needs_to_manifest", "summary"):
            if k in old:
                meta[k] = old[k]
    (dst / "meta.json").write_text(json.dumps(meta, indent=1) + "\n")


if __name__ == "__main__":
    main()
