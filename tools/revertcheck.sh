#!/bin/bash
# tools/revertcheck.sh <fix-commit> <Dn> <check> : re-introduce an original defect (reverse of a fix: commit) and run the check
set -u
c=$1; d=$2; chk=$3
cd /repo || exit 2
test -z "$(git status --porcelain --untracked-files=no)" || { echo "/repo dirty"; exit 2; }
mkdir -p /verif/seeded/revert_$d
git show $c -- src > /tmp/fix_$d.diff
git apply -R /tmp/fix_$d.diff || { echo "cannot reverse-apply"; exit 2; }
git diff > /verif/seeded/revert_$d/patch.diff
cd /verif
out=$(VERIF_SCRATCH_OUT=/tmp/verif_seed_out ./check $chk quick 2>&1); rc=$?
cd /repo && git checkout -- . 
echo "$out" | grep -E "^\[|VIOLATION|class=" | head -6
echo "revert_$d $chk exit=$rc"
echo "$out" | grep -E "class=" | head -3 > /tmp/revert_detail.txt
python3 - "$d" "$chk" "$rc" "$c" <<'PY'
import json,sys
d,chk,rc,c=sys.argv[1:]
out=open('/tmp/revert_detail.txt').read()
json.dump({"id":f"revert_{d}","breaks_property":chk,"source":f"reverse of fix commit {c} (the original defect {d} of the pinned tree)",
 "needs_to_manifest":"see known_findings.json entry "+d,"what_i_ran":[f"git show {c} -- src | git -C /repo apply -R; ./check {chk} quick; git -C /repo checkout -- ."],
 "checks":{chk:{"exit":int(rc),"detected":int(rc)==1,"detail":out.strip().splitlines()[:3],"tier":"quick"}}},open(f"/verif/seeded/revert_{d}/meta.json","w"),indent=1)
PY
